package main

import (
	"fmt"
	"go/ast"
	"go/token"
	"go/types"
	"strings"
)

// W3/W4: instrument accesses to memory that can be shared between caller
// threads, and route synchronisation through the simulator.
//
// A location "can be shared" when its addressable expression is rooted in a
// pointer dereference, a slice element, a package-level variable or a local
// variable captured by a function literal. Purely local, uncaptured variables
// (and fields / array elements of them) are skipped.
//
//   write  x = v        ->  simrt.W(unsafe.Pointer(&(x)), size, site); x = v
//   read   E            ->  (*(*T)(simrt.RP(unsafe.Pointer(&(E)), size, site)))
//   map    m[k] = v     ->  simrt.WM(m, site); m[k] = v        (also delete)
//          m[k], len(m) ->  simrt.RM(m, site).(M)[k]
//   append(s, ...)    ->  append(simrt.AP(s, site).([]T), ...)   (write to s[len:cap])
//   sync   mu.Lock()    ->  simrt.MuLock(&(mu), site)           (Unlock, RLock, RUnlock)
//          once.Do(f)   ->  simrt.OnceDo(&(once), f, site)
//   bulk   copy(d, s)   ->  copy(simrt.WS(d, site).(T), simrt.RS(s, site).(T))
//          sort.Slice(x, less) -> sort.Slice(simrt.WS(x, site).(T), less)   (SliceStable alike)
//          pool.Get()   ->  simrt.PoolGet(&(pool), site);  pool.Put(v) -> simrt.PoolPut(&(pool), site, v)

var sizes = types.SizesFor("gc", "amd64")

type w3ctx struct {
	w        *weaver
	fc       *fileCtx
	fn       string
	captured map[*types.Var]bool
	seq      int
}

const stmtPrio = -1 << 30

func (w *weaver) w3(fc *fileCtx, n ast.Node, fn string) {}

// w3File instruments every function of a file.
func (w *weaver) w3File(fc *fileCtx) {
	c := &w3ctx{w: w, fc: fc, captured: map[*types.Var]bool{}}
	// captured variables: used inside a function literal, declared outside it
	ast.Inspect(fc.file, func(n ast.Node) bool {
		lit, ok := n.(*ast.FuncLit)
		if !ok {
			return true
		}
		ast.Inspect(lit.Body, func(m ast.Node) bool {
			id, ok := m.(*ast.Ident)
			if !ok {
				return true
			}
			v, ok := w.info.Uses[id].(*types.Var)
			if !ok || v.IsField() || v.Parent() == w.pkg.Scope() || v.Parent() == types.Universe {
				return true
			}
			if v.Pos() < lit.Pos() || v.Pos() > lit.End() {
				c.captured[v] = true
			}
			return true
		})
		return true
	})
	for _, d := range fc.file.Decls {
		fd, ok := d.(*ast.FuncDecl)
		if !ok || fd.Body == nil {
			continue
		}
		c.fn = fd.Name.Name
		if fd.Recv != nil && len(fd.Recv.List) > 0 {
			c.fn = recvName(fd.Recv.List[0].Type) + "." + fd.Name.Name
		}
		c.block(fd.Body)
	}
}

func (c *w3ctx) off(p token.Pos) int { return c.fc.off(c.w.fset, p) }
func (c *w3ctx) text(n ast.Node) string {
	return string(c.fc.src[c.off(n.Pos()):c.off(n.End())])
}

func (c *w3ctx) typeOf(e ast.Expr) types.Type {
	if tv, ok := c.w.info.Types[e]; ok {
		return tv.Type
	}
	if id, ok := e.(*ast.Ident); ok {
		if o := c.w.info.Uses[id]; o != nil {
			return o.Type()
		}
		if o := c.w.info.Defs[id]; o != nil {
			return o.Type()
		}
	}
	return nil
}

func isPtr(t types.Type) bool {
	if t == nil {
		return false
	}
	_, ok := t.Underlying().(*types.Pointer)
	return ok
}

func (c *w3ctx) varOf(id *ast.Ident) *types.Var {
	if v, ok := c.w.info.Uses[id].(*types.Var); ok {
		return v
	}
	if v, ok := c.w.info.Defs[id].(*types.Var); ok {
		return v
	}
	return nil
}

// shared reports whether the location denoted by addressable expression e can
// be reached by another thread.
func (c *w3ctx) shared(e ast.Expr) bool {
	switch x := e.(type) {
	case *ast.ParenExpr:
		return c.shared(x.X)
	case *ast.Ident:
		v := c.varOf(x)
		if v == nil || v.IsField() {
			return false
		}
		return v.Parent() == c.w.pkg.Scope() || c.captured[v]
	case *ast.SelectorExpr:
		sel := c.w.info.Selections[x]
		if sel == nil || sel.Kind() != types.FieldVal {
			return false
		}
		if sel.Indirect() || isPtr(c.typeOf(x.X)) {
			return true
		}
		return c.shared(x.X)
	case *ast.IndexExpr:
		t := c.typeOf(x.X)
		if t == nil {
			return false
		}
		switch u := t.Underlying().(type) {
		case *types.Slice:
			return true
		case *types.Pointer:
			_ = u
			return true
		case *types.Array:
			return c.shared(x.X)
		}
		return false
	case *ast.StarExpr:
		return true
	}
	return false
}

func (c *w3ctx) spellable(t types.Type) (string, bool) {
	if t == nil {
		return "", false
	}
	switch u := t.(type) {
	case *types.Tuple:
		return "", false
	case *types.Basic:
		if u.Info()&types.IsUntyped != 0 || u.Kind() == types.Invalid {
			return "", false
		}
	}
	s := c.w.typeStr(c.fc, t)
	if strings.Contains(s, "invalid type") {
		return "", false
	}
	return s, true
}

func (c *w3ctx) site(kind string, n ast.Node) int32 {
	expr := c.text(n)
	if len(expr) > 60 {
		expr = expr[:60]
	}
	return c.w.newSite(c.fc, c.fn, kind, n.Pos(), expr)
}

// wrapRead wraps rvalue expression e so that reading it is recorded.
func (c *w3ctx) wrapRead(e ast.Expr) {
	tv, ok := c.w.info.Types[e]
	if !ok || !tv.Addressable() || tv.IsType() {
		if id, isID := e.(*ast.Ident); !(isID && c.varOf(id) != nil) {
			return
		}
	}
	t := c.typeOf(e)
	ts, ok := c.spellable(t)
	if !ok {
		return
	}
	size := sizes.Sizeof(t)
	id := c.site("read", e)
	c.seq++
	c.fc.unsafe = true
	c.fc.insert(c.off(e.Pos()), fmt.Sprintf("(*(*%s)(simrt.RP(_simunsafe.Pointer(&(", ts), -c.seq)
	c.fc.insert(c.off(e.End()), fmt.Sprintf(")), %d, %d)))", size, id), c.seq)
}

// wrapMapRead wraps a map-typed expression whose contents are read.
func (c *w3ctx) wrapMapRead(m ast.Expr) {
	t := c.typeOf(m)
	ts, ok := c.spellable(t)
	if !ok {
		return
	}
	id := c.site("mapread", m)
	c.seq++
	c.fc.insert(c.off(m.Pos()), "simrt.RM(", -c.seq)
	c.fc.insert(c.off(m.End()), fmt.Sprintf(", %d).(%s)", id, ts), c.seq)
}

// wrapSlice wraps a slice-typed expression in simrt.WS / simrt.RS (write / read of all
// of its elements).
func (c *w3ctx) wrapSlice(e ast.Expr, fn, kind string) {
	t := c.typeOf(e)
	if t == nil {
		return
	}
	if _, isSlice := t.Underlying().(*types.Slice); !isSlice {
		return
	}
	ts, ok := c.spellable(t)
	if !ok {
		return
	}
	id := c.site(kind, e)
	c.seq++
	c.fc.insert(c.off(e.Pos()), "simrt."+fn+"(", -c.seq)
	c.fc.insert(c.off(e.End()), fmt.Sprintf(", %d).(%s)", id, ts), c.seq)
}

const (
	mRead = iota // rvalue: the location is read
	mLoc         // only the location is needed (assignment target, &x, pointer-receiver call)
)

func (c *w3ctx) exprs(es []ast.Expr) {
	for _, e := range es {
		c.expr(e, mRead)
	}
}

func (c *w3ctx) isType(e ast.Expr) bool {
	tv, ok := c.w.info.Types[e]
	return ok && tv.IsType()
}

func (c *w3ctx) expr(e ast.Expr, mode int) {
	if e == nil || c.isType(e) {
		return
	}
	switch x := e.(type) {
	case *ast.ParenExpr:
		c.expr(x.X, mode)
	case *ast.Ident:
		if mode == mRead && x.Name != "_" {
			if v := c.varOf(x); v != nil && !v.IsField() && c.shared(x) {
				c.wrapRead(x)
			}
		}
	case *ast.SelectorExpr:
		sel := c.w.info.Selections[x]
		if sel == nil {
			return // qualified identifier
		}
		switch sel.Kind() {
		case types.FieldVal:
			if isPtr(c.typeOf(x.X)) {
				c.expr(x.X, mRead)
			} else {
				c.expr(x.X, mLoc)
			}
			if mode == mRead && c.shared(x) {
				c.wrapRead(x)
			}
		default: // method value / call
			recvPtr := false
			if f, ok := sel.Obj().(*types.Func); ok {
				if sig, ok := f.Type().(*types.Signature); ok && sig.Recv() != nil {
					recvPtr = isPtr(sig.Recv().Type())
				}
			}
			if isPtr(c.typeOf(x.X)) || !recvPtr {
				c.expr(x.X, mRead)
			} else {
				c.expr(x.X, mLoc)
			}
		}
	case *ast.IndexExpr:
		t := c.typeOf(x.X)
		if t == nil {
			return
		}
		switch t.Underlying().(type) {
		case *types.Map:
			c.expr(x.X, mRead)
			c.expr(x.Index, mRead)
			if mode == mRead {
				c.wrapMapRead(x.X)
			}
		case *types.Array:
			c.expr(x.X, mLoc)
			c.expr(x.Index, mRead)
			if mode == mRead && c.shared(x) {
				c.wrapRead(x)
			}
		case *types.Signature:
			// generic instantiation: not used in this code base
		default:
			c.expr(x.X, mRead)
			c.expr(x.Index, mRead)
			if mode == mRead && c.shared(x) {
				if _, isStr := t.Underlying().(*types.Basic); !isStr {
					c.wrapRead(x)
				}
			}
		}
	case *ast.StarExpr:
		c.expr(x.X, mRead)
		if mode == mRead {
			c.wrapRead(x)
		}
	case *ast.UnaryExpr:
		if x.Op == token.AND {
			c.expr(x.X, mLoc)
		} else {
			c.expr(x.X, mRead)
		}
	case *ast.BinaryExpr:
		c.expr(x.X, mRead)
		c.expr(x.Y, mRead)
	case *ast.CallExpr:
		c.call(x)
	case *ast.CompositeLit:
		t := c.typeOf(x)
		isStruct := false
		if t != nil {
			u := t.Underlying()
			if p, ok := u.(*types.Pointer); ok {
				u = p.Elem().Underlying()
			}
			_, isStruct = u.(*types.Struct)
		}
		for _, el := range x.Elts {
			if kv, ok := el.(*ast.KeyValueExpr); ok {
				if !isStruct {
					c.expr(kv.Key, mRead)
				}
				c.expr(kv.Value, mRead)
			} else {
				c.expr(el, mRead)
			}
		}
	case *ast.FuncLit:
		old := c.fn
		c.fn = old + ".func"
		c.block(x.Body)
		c.fn = old
	case *ast.TypeAssertExpr:
		c.expr(x.X, mRead)
	case *ast.SliceExpr:
		t := c.typeOf(x.X)
		if t != nil {
			if _, arr := t.Underlying().(*types.Array); arr {
				c.expr(x.X, mLoc)
			} else {
				c.expr(x.X, mRead)
			}
		}
		c.expr(x.Low, mRead)
		c.expr(x.High, mRead)
		c.expr(x.Max, mRead)
	case *ast.KeyValueExpr:
		c.expr(x.Value, mRead)
	}
}

func (c *w3ctx) syncKind(t types.Type) string {
	if t == nil {
		return ""
	}
	if p, ok := t.Underlying().(*types.Pointer); ok {
		t = p.Elem()
	}
	n, ok := t.(*types.Named)
	if !ok || n.Obj().Pkg() == nil || n.Obj().Pkg().Path() != "sync" {
		return ""
	}
	return n.Obj().Name()
}

func (c *w3ctx) call(x *ast.CallExpr) {
	if c.isType(x.Fun) { // conversion
		c.exprs(x.Args)
		return
	}
	// W4: sync primitives
	if se, ok := x.Fun.(*ast.SelectorExpr); ok {
		if sel := c.w.info.Selections[se]; sel != nil && sel.Kind() == types.MethodVal {
			kind := c.syncKind(c.typeOf(se.X))
			repl := ""
			switch {
			case (kind == "Mutex" || kind == "RWMutex") && se.Sel.Name == "Lock":
				repl = "MuLock"
			case (kind == "Mutex" || kind == "RWMutex") && se.Sel.Name == "Unlock":
				repl = "MuUnlock"
			case kind == "RWMutex" && se.Sel.Name == "RLock":
				repl = "MuRLock"
			case kind == "RWMutex" && se.Sel.Name == "RUnlock":
				repl = "MuRUnlock"
			case kind == "Once" && se.Sel.Name == "Do":
				repl = "OnceDo"
			case kind == "Pool" && se.Sel.Name == "Get" && len(x.Args) == 0:
				repl = "PoolGet"
			case kind == "Pool" && se.Sel.Name == "Put" && len(x.Args) == 1:
				repl = "PoolPut"
			}
			if repl != "" {
				recv := c.text(se.X)
				if !isPtr(c.typeOf(se.X)) {
					recv = "&(" + recv + ")"
				}
				id := c.site("sync", x)
				if repl == "PoolPut" {
					c.fc.replace(c.off(x.Pos()), c.off(x.Lparen)+1, fmt.Sprintf("simrt.PoolPut(%s, %d, ", recv, id))
					c.exprs(x.Args)
				} else if repl == "OnceDo" {
					c.fc.replace(c.off(x.Pos()), c.off(x.Lparen)+1, fmt.Sprintf("simrt.OnceDo(%s, ", recv))
					c.fc.insert(c.off(x.Rparen), fmt.Sprintf(", %d", id), 1<<29)
					c.exprs(x.Args)
				} else {
					c.fc.replace(c.off(x.Pos()), c.off(x.Lparen)+1, fmt.Sprintf("simrt.%s(%s, %d", repl, recv, id))
				}
				return
			}
		}
	}
	// sort.Slice / sort.SliceStable / sort.Sort swap elements behind the weaver's back
	// (through reflect): the call counts as a write of every element of its first argument
	if se, ok := x.Fun.(*ast.SelectorExpr); ok {
		if pid, ok := se.X.(*ast.Ident); ok {
			if pn, ok := c.w.info.Uses[pid].(*types.PkgName); ok && pn.Imported().Path() == "sort" &&
				(se.Sel.Name == "Slice" || se.Sel.Name == "SliceStable") && len(x.Args) == 2 {
				c.exprs(x.Args)
				c.wrapSlice(x.Args[0], "WS", "slicewrite")
				return
			}
		}
	}
	if id, ok := x.Fun.(*ast.Ident); ok {
		if _, isBuiltin := c.w.info.Uses[id].(*types.Builtin); isBuiltin {
			switch id.Name {
			case "len":
				c.exprs(x.Args)
				if len(x.Args) == 1 {
					if t := c.typeOf(x.Args[0]); t != nil {
						if _, isMap := t.Underlying().(*types.Map); isMap {
							c.wrapMapRead(x.Args[0])
						}
					}
				}
			case "append":
				c.exprs(x.Args)
				// append may write into the spare capacity of its first argument's
				// backing array, which other slices (and threads) can share
				if len(x.Args) >= 1 {
					if ts, ok := c.spellable(c.typeOf(x.Args[0])); ok {
						if _, isSlice := c.typeOf(x.Args[0]).Underlying().(*types.Slice); isSlice {
							id := c.site("append", x.Args[0])
							c.seq++
							c.fc.insert(c.off(x.Args[0].Pos()), "simrt.AP(", -c.seq)
							c.fc.insert(c.off(x.Args[0].End()), fmt.Sprintf(", %d).(%s)", id, ts), c.seq)
						}
					}
				}
			case "copy":
				c.exprs(x.Args)
				// copy writes the elements of its first argument and reads those of its second
				if len(x.Args) == 2 {
					c.wrapSlice(x.Args[0], "WS", "slicewrite")
					c.wrapSlice(x.Args[1], "RS", "sliceread")
				}
			case "new", "make":
				if len(x.Args) > 1 {
					c.exprs(x.Args[1:])
				}
			default:
				c.exprs(x.Args)
			}
			return
		}
	}
	c.expr(x.Fun, mRead)
	c.exprs(x.Args)
}

// lhs instruments an assignment target; returns statements to insert before
// the assigning statement.
func (c *w3ctx) lhs(e ast.Expr, tok token.Token) []string {
	for {
		p, ok := e.(*ast.ParenExpr)
		if !ok {
			break
		}
		e = p.X
	}
	if id, ok := e.(*ast.Ident); ok {
		if id.Name == "_" {
			return nil
		}
		if tok == token.DEFINE && c.w.info.Defs[id] != nil {
			return nil
		}
	}
	if ix, ok := e.(*ast.IndexExpr); ok {
		if t := c.typeOf(ix.X); t != nil {
			if _, isMap := t.Underlying().(*types.Map); isMap {
				c.expr(ix.X, mRead)
				c.expr(ix.Index, mRead)
				id := c.site("mapwrite", ix.X)
				return []string{fmt.Sprintf("simrt.WM(%s, %d);", c.text(ix.X), id)}
			}
		}
	}
	c.expr(e, mLoc)
	if !c.shared(e) {
		return nil
	}
	t := c.typeOf(e)
	if t == nil {
		return nil
	}
	id := c.site("write", e)
	c.fc.unsafe = true
	return []string{fmt.Sprintf("simrt.W(_simunsafe.Pointer(&(%s)), %d, %d);", c.text(e), sizes.Sizeof(t), id)}
}

func (c *w3ctx) block(b *ast.BlockStmt) {
	if b == nil {
		return
	}
	c.list(b.List)
}

func (c *w3ctx) list(ss []ast.Stmt) {
	for _, s := range ss {
		c.stmt(s, true)
	}
}

func (c *w3ctx) emitBefore(s ast.Stmt, pre []string, inList bool) {
	if len(pre) == 0 {
		return
	}
	if !inList {
		fatal("%s: write to shared state in a statement position the weaver cannot instrument (init/post/labeled)", c.w.fset.Position(s.Pos()))
	}
	c.fc.insert(c.off(s.Pos()), strings.Join(pre, " ")+" ", stmtPrio)
}

func (c *w3ctx) stmt(s ast.Stmt, inList bool) {
	switch x := s.(type) {
	case nil:
	case *ast.AssignStmt:
		var pre []string
		for _, l := range x.Lhs {
			pre = append(pre, c.lhs(l, x.Tok)...)
		}
		c.exprs(x.Rhs)
		if !inList && len(pre) > 0 && x.Tok == token.ASSIGN && len(x.Lhs) == len(x.Rhs) {
			// `if x = f(); cond` and friends: no room for a statement in front, so the
			// write is recorded by an extra operand of a tuple assignment, which Go
			// evaluates (left to right) before f() and before anything is assigned:
			//   _, x = simrt.Wd(&x, size, site), f()
			var ops []string
			for _, p := range pre {
				ops = append(ops, strings.TrimSuffix(strings.Replace(p, "simrt.W(", "simrt.Wd(", 1), ";"))
			}
			c.fc.insert(c.off(s.Pos()), strings.Repeat("_, ", len(ops)), stmtPrio)
			c.fc.insert(c.off(x.TokPos)+1, " "+strings.Join(ops, ", ")+",", stmtPrio)
			return
		}
		c.emitBefore(s, pre, inList)
	case *ast.IncDecStmt:
		c.emitBefore(s, c.lhs(x.X, token.ASSIGN), inList)
	case *ast.ExprStmt:
		if call, ok := x.X.(*ast.CallExpr); ok {
			if id, ok := call.Fun.(*ast.Ident); ok && id.Name == "delete" && len(call.Args) == 2 {
				if _, isBuiltin := c.w.info.Uses[id].(*types.Builtin); isBuiltin {
					sid := c.site("mapwrite", call.Args[0])
					c.emitBefore(s, []string{fmt.Sprintf("simrt.WM(%s, %d);", c.text(call.Args[0]), sid)}, inList)
				}
			}
		}
		c.expr(x.X, mRead)
	case *ast.BlockStmt:
		c.block(x)
	case *ast.IfStmt:
		c.stmt(x.Init, false)
		c.expr(x.Cond, mRead)
		c.block(x.Body)
		c.stmt(x.Else, false)
	case *ast.ForStmt:
		c.stmt(x.Init, false)
		c.expr(x.Cond, mRead)
		c.stmt(x.Post, false)
		c.block(x.Body)
	case *ast.RangeStmt:
		isMap := false
		if t := c.typeOf(x.X); t != nil {
			_, isMap = t.Underlying().(*types.Map)
		}
		if !isMap {
			// map range headers are rewritten by W1 (simrt.Range records the map read)
			c.expr(x.X, mRead)
		}
		if x.Tok == token.ASSIGN {
			for _, e := range []ast.Expr{x.Key, x.Value} {
				if e != nil && c.shared(e) {
					fatal("%s: range assigns to shared state; not supported by the weaver", c.w.fset.Position(x.Pos()))
				}
			}
		}
		c.block(x.Body)
	case *ast.SwitchStmt:
		c.stmt(x.Init, false)
		c.expr(x.Tag, mRead)
		c.block(x.Body)
	case *ast.TypeSwitchStmt:
		c.stmt(x.Init, false)
		switch a := x.Assign.(type) {
		case *ast.AssignStmt:
			c.exprs(a.Rhs)
		case *ast.ExprStmt:
			c.expr(a.X, mRead)
		}
		c.block(x.Body)
	case *ast.CaseClause:
		c.exprs(x.List)
		c.list(x.Body)
	case *ast.LabeledStmt:
		c.stmt(x.Stmt, false)
	case *ast.ReturnStmt:
		c.exprs(x.Results)
	case *ast.DeferStmt:
		c.call(x.Call)
	case *ast.GoStmt:
		c.call(x.Call)
	case *ast.DeclStmt:
		if gd, ok := x.Decl.(*ast.GenDecl); ok {
			for _, sp := range gd.Specs {
				if vs, ok := sp.(*ast.ValueSpec); ok {
					c.exprs(vs.Values)
				}
			}
		}
	case *ast.SendStmt:
		c.expr(x.Chan, mRead)
		c.expr(x.Value, mRead)
	case *ast.SelectStmt:
		c.block(x.Body)
	case *ast.CommClause:
		c.stmt(x.Comm, false)
		c.list(x.Body)
	}
}
