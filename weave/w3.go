package main

import "go/ast"

// w3 instruments accesses to state that can be shared between caller threads.
// Filled in with the concurrency properties (C11/C12).
func (w *weaver) w3(fc *fileCtx, n ast.Node, fn string) {}
