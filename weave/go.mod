module verif.local/weave

go 1.21
