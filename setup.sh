#!/bin/bash
# offline setup: build the weaver and warm the Go build cache for the harness
set -e
export GOFLAGS=-mod=mod GOPROXY=off GOSUMDB=off GOTOOLCHAIN=local CGO_ENABLED=0
cd "$(dirname "$0")"
mkdir -p .bin evidence
( cd weave && go build -o ../.bin/weave . )
( cd simrt && go build ./... && go build -tags verifsim ./... )
echo setup ok
