package core

import (
	"bufio"
	"encoding/binary"
	"encoding/json"
	"fmt"
	"os"
	"os/exec"
	"path/filepath"
	"runtime"
	"sort"
	"strings"
	"time"

	"verif.local/simrt"
)

// Finding is one line of /verif/known_findings.jsonl (committed, never written
// at run time).
type Finding struct {
	Status   string `json:"status"` // known | fixed
	Property string `json:"property"`
	ID       string `json:"id"`
	What     string `json:"what"`
	Class    string `json:"class"`
	Site     string `json:"site"`
	Shape    string `json:"shape"`
	Witness  string `json:"witness"` // path relative to /verif
	Commit   string `json:"commit,omitempty"`
}

func LoadFindings(path, prop string) ([]Finding, error) {
	f, err := os.Open(path)
	if err != nil {
		if os.IsNotExist(err) {
			return nil, nil
		}
		return nil, err
	}
	defer f.Close()
	var out []Finding
	sc := bufio.NewScanner(f)
	sc.Buffer(make([]byte, 1<<20), 1<<24)
	for sc.Scan() {
		ln := strings.TrimSpace(sc.Text())
		if ln == "" || strings.HasPrefix(ln, "#") {
			continue
		}
		var fd Finding
		if err := json.Unmarshal([]byte(ln), &fd); err != nil {
			return nil, fmt.Errorf("known_findings: %v", err)
		}
		if fd.Property == prop {
			out = append(out, fd)
		}
	}
	return out, sc.Err()
}

type SiteInfo struct {
	ID   int32  `json:"id"`
	Pkg  string `json:"pkg"`
	File string `json:"file"`
	Func string `json:"func"`
	Kind string `json:"kind"`
	Line int    `json:"line"`
	Expr string `json:"expr"`
}

type CheckOpts struct {
	Tier      string
	Seed      uint64
	Workers   int
	VerifDir  string
	Scratch   string // scratch dir for worker result files
	TreeFP    string
	SitesJSON string
	MaxWall   time.Duration
}

// Check is the parent: replays known witnesses, fans out workers, merges,
// writes evidence, prints VIOLATION / KNOWN-FINDING lines. Returns exit code.
func Check(p Property, o CheckOpts) int {
	start := time.Now()
	self, _ := os.Executable()
	id := p.ID()
	findings, err := LoadFindings(filepath.Join(o.VerifDir, "known_findings.jsonl"), id)
	if err != nil {
		fmt.Fprintln(os.Stderr, "infra:", err)
		return 2
	}
	exit := 0
	knownSeen := map[string]uint64{}
	var knownLines []string
	var violationLines []string
	// 1. witnesses of known and fixed findings (directed regression set)
	for _, fd := range findings {
		if fd.Witness == "" {
			continue
		}
		wpath := filepath.Join(o.VerifDir, fd.Witness)
		cmd := exec.Command(self, "replay", "-prop", id, "-file", wpath, "-lenient", "-quiet")
		out, err := cmd.CombinedOutput()
		code := 0
		if ee, ok := err.(*exec.ExitError); ok {
			code = ee.ExitCode()
		} else if err != nil {
			fmt.Fprintln(os.Stderr, "infra: witness replay:", err)
			return 2
		}
		switch {
		case code == 1 && fd.Status == "known":
			knownLines = append(knownLines, fmt.Sprintf("KNOWN-FINDING: property=%s %s [%s] class=%s site=%s shape=%s witness=%s", id, fd.What, fd.ID, fd.Class, fd.Site, fd.Shape, fd.Witness))
		case code == 1 && fd.Status == "fixed":
			violationLines = append(violationLines, fmt.Sprintf("VIOLATION property=%s replay=%s", id, wpath))
			fmt.Printf("regression: finding %s recorded as fixed fails again\n", fd.ID)
			exit = 1
		case code == 0:
			// witness passes: known finding no longer manifests / fix holds
		default:
			fmt.Fprintf(os.Stderr, "infra: witness replay of %s exited %d:\n%s\n", fd.Witness, code, out)
			return 2
		}
	}
	// 2. exploration
	plan := p.Plan(o.Tier)
	W := o.Workers
	if W <= 0 {
		W = runtime.NumCPU()
	}
	if uint64(W) > plan.Cases {
		W = int(plan.Cases)
	}
	deadline := time.Time{}
	if o.MaxWall > 0 {
		deadline = start.Add(o.MaxWall)
	}
	type wproc struct {
		cmd  *exec.Cmd
		out  string
		prog string
		w    int
	}
	var procs []*wproc
	for w := 0; w < W; w++ {
		out := filepath.Join(o.Scratch, fmt.Sprintf("worker-%s-%d.json", id, w))
		prog := out + ".progress"
		args := []string{"worker", "-prop", id, "-tier", o.Tier, "-seed", fmt.Sprint(o.Seed),
			"-lo", fmt.Sprint(w), "-hi", fmt.Sprint(plan.Cases), "-stride", fmt.Sprint(W),
			"-out", out, "-progress", prog, "-treefp", o.TreeFP}
		if !deadline.IsZero() {
			args = append(args, "-deadline", fmt.Sprint(deadline.UnixNano()))
		}
		cmd := exec.Command(self, args...)
		cmd.Env = append(os.Environ(), "VERIF_SITES="+o.SitesJSON)
		cmd.Stderr = os.Stderr
		if err := cmd.Start(); err != nil {
			fmt.Fprintln(os.Stderr, "infra: start worker:", err)
			return 2
		}
		procs = append(procs, &wproc{cmd: cmd, out: out, prog: prog, w: w})
	}
	merged := NewStats()
	var results []WorkerResult
	var digests []string
	keyCounts := map[string]uint64{}
	var found []Found
	var cases uint64
	truncated := false
	for _, pr := range procs {
		err := pr.cmd.Wait()
		if err != nil {
			// a worker died (fatal runtime error such as stack exhaustion):
			// find the run it was executing and see whether that reproduces.
			var idx uint64
			if b, e := os.ReadFile(pr.prog); e == nil && len(b) == 8 {
				idx = binary.LittleEndian.Uint64(b)
			}
			again := exec.Command(self, "worker", "-prop", id, "-tier", o.Tier, "-seed", fmt.Sprint(o.Seed),
				"-lo", fmt.Sprint(idx), "-hi", fmt.Sprint(idx+1), "-stride", "1", "-out", pr.out+".again", "-treefp", o.TreeFP)
			again.Env = append(os.Environ(), "VERIF_SITES="+o.SitesJSON)
			if e2 := again.Run(); e2 != nil {
				rp := filepath.Join(o.VerifDir, "replays", fmt.Sprintf("%s-%d-%d-crash.json", id, o.Seed, idx))
				os.MkdirAll(filepath.Dir(rp), 0o755)
				os.WriteFile(rp, mustJSON(map[string]interface{}{"property": id, "seed": o.Seed, "run_index": idx,
					"violation": Violation{Class: "fatal-crash", Site: "process", Detail: "worker process died twice on this run index"},
					"replay":    fmt.Sprintf("sim worker -prop %s -tier %s -seed %d -lo %d -hi %d -stride 1", id, o.Tier, o.Seed, idx, idx+1)}), 0o644)
				violationLines = append(violationLines, fmt.Sprintf("VIOLATION property=%s replay=%s", id, rp))
				exit = 1
				continue
			}
			fmt.Fprintf(os.Stderr, "infra: worker %d died (%v) but run %d does not reproduce the crash\n", pr.w, err, idx)
			return 2
		}
		b, e := os.ReadFile(pr.out)
		if e != nil {
			fmt.Fprintln(os.Stderr, "infra: worker result:", e)
			return 2
		}
		var r WorkerResult
		if e := json.Unmarshal(b, &r); e != nil {
			fmt.Fprintln(os.Stderr, "infra: worker result:", e)
			return 2
		}
		if r.Infra != "" {
			fmt.Fprintln(os.Stderr, "infra: worker reported:", r.Infra)
			return 2
		}
		results = append(results, r)
		digests = append(digests, r.Digest)
		for k, v := range r.Counters { // order-insensitive: sums / maxima
			if strings.HasPrefix(k, "max_") {
				if merged.C[k] < v {
					merged.C[k] = v
				}
				continue
			}
			merged.C[k] += v
		}
		for sid, ss := range r.Sites { // order-insensitive: sums
			d := merged.Sites[sid]
			if d == nil {
				d = &simrt.SiteStat{}
				merged.Sites[sid] = d
			}
			d.Calls += ss.Calls
			d.NonIdentity += ss.NonIdentity
		}
		for k, v := range r.KeyCounts { // order-insensitive: sums
			keyCounts[k] += v
		}
		found = append(found, r.Found...)
		cases += r.Cases
		truncated = truncated || r.Truncated
		if len(merged.Samples) < 4 {
			merged.Samples = append(merged.Samples, r.Samples...)
		}
		if db, e := os.ReadFile(r.Distinct); e == nil {
			for i := 0; i+8 <= len(db); i += 8 {
				merged.Distinct[binary.LittleEndian.Uint64(db[i:])] = struct{}{}
			}
		}
	}
	// 3. classify what was found
	sort.Slice(found, func(i, j int) bool { return found[i].RunIndex < found[j].RunIndex })
	reported := map[string]bool{}
	unlisted := 0
	for _, f := range found {
		listed := false
		for _, fd := range findings {
			if fd.Status == "known" && fd.Class == f.Violation.Class && fd.Site == f.Violation.Site && fd.Shape == f.Violation.Shape {
				listed = true
				knownSeen[fd.ID]++
			}
		}
		if listed {
			continue
		}
		unlisted++
		key := f.Violation.Key() + "|" + f.Violation.Shape
		if reported[key] {
			continue
		}
		reported[key] = true
		if len(reported) > 4 {
			continue // enough distinct reports; the rest is counted in the evidence
		}
		rp := filepath.Join(o.VerifDir, "replays", fmt.Sprintf("%s-%d-%d-%d.json", id, o.Seed, f.RunIndex, len(reported)))
		os.MkdirAll(filepath.Dir(rp), 0o755)
		js, _ := json.MarshalIndent(f, "", " ")
		os.WriteFile(rp, js, 0o644)
		// make the file exact for a fresh process (see cmd/sim, -rewrite)
		if self != "" {
			rc := exec.Command(self, "replay", "-prop", id, "-file", rp, "-rewrite", "-quiet")
			rc.Env = os.Environ()
			rc.Run()
		}
		fmt.Printf("violation: class=%s site=%s shape=%s detail=%s\n", f.Violation.Class, f.Violation.Site, f.Violation.Shape, f.Violation.Detail)
		violationLines = append(violationLines, fmt.Sprintf("VIOLATION property=%s replay=%s", id, rp))
		exit = 1
	}
	// 4. probes
	info := p.Info()
	var zero []string
	for _, pb := range info.Probes {
		if merged.C[pb] == 0 {
			zero = append(zero, pb)
		}
	}
	wall := time.Since(start).Seconds()
	// 5. evidence
	sites := loadSites(o.SitesJSON)
	siteKinds := map[string]map[string]uint64{}
	for sid, ss := range merged.Sites { // order-insensitive: sums into a map
		name := fmt.Sprintf("site%d", sid)
		if si, ok := sites[sid]; ok {
			name = si.Pkg + ":" + si.Func + ":" + si.Expr
			if si.Pkg == "." {
				name = si.Func + ":" + si.Expr
			}
		}
		m := siteKinds[name]
		if m == nil {
			m = map[string]uint64{}
			siteKinds[name] = m
		}
		m["choice_points"] += ss.Calls
		m["non_identity"] += ss.NonIdentity
	}
	evals := merged.C["schedules"]
	if evals == 0 {
		evals = cases
	}
	cov := map[string]interface{}{
		"evaluations":              evals,
		"distinct_nontrivial":      len(merged.Distinct),
		"rule":                     info.Rule,
		"samples":                  merged.Samples,
		"cases":                    cases,
		"planned_cases":            plan.Cases,
		"schedules_per_case":       plan.Schedules,
		"truncated_by_deadline":    truncated,
		"runs_per_hour":            int64(float64(evals) / wall * 3600),
		"simulated_steps":          merged.C["sim_steps"],
		"simulated_time":           "none: the library has no clock or timer; progress is measured in simulated steps",
		"counters":                 merged.C,
		"s1_sites":                 siteKinds,
		"violations_by_class_site": keyCounts,
		"known_findings_seen":      knownSeen,
		"unlisted_violations":      unlisted,
		"components_real":          info.Real,
		"components_simulated":     info.Simulated,
		"workers":                  W,
		"event_log_digests":        digests,
	}
	ev := map[string]interface{}{
		"property_id": id,
		"tier":        o.Tier,
		"seed":        o.Seed,
		"level":       "exploration",
		"coverage":    cov,
		"assumptions": info.Assumptions,
		"wall_s":      wall,
		"violations":  unlisted,
	}
	js, _ := json.MarshalIndent(ev, "", " ")
	evDir := filepath.Join(o.VerifDir, "evidence")
	if d := os.Getenv("VERIF_EVIDENCE_DIR"); d != "" {
		evDir = d // runs against a scratch tree (seeded changes) keep the real evidence intact
	}
	os.MkdirAll(evDir, 0o755)
	if err := os.WriteFile(filepath.Join(evDir, id+".json"), js, 0o644); err != nil {
		fmt.Fprintln(os.Stderr, "infra: evidence:", err)
		return 2
	}
	for _, l := range knownLines {
		fmt.Println(l)
	}
	for _, l := range violationLines {
		fmt.Println(l)
	}
	fmt.Printf("%s %s: cases=%d executions=%d distinct_nontrivial=%d unlisted_violations=%d known_seen=%v wall=%.1fs truncated=%v\n",
		id, o.Tier, cases, evals, len(merged.Distinct), unlisted, knownSeen, wall, truncated)
	if len(zero) > 0 && exit == 0 {
		fmt.Fprintf(os.Stderr, "infra: reach probes at zero (workload does not reach what it claims): %v\n", zero)
		return 2
	}
	return exit
}

func loadSites(path string) map[int32]SiteInfo {
	out := map[int32]SiteInfo{}
	if path == "" {
		return out
	}
	b, err := os.ReadFile(path)
	if err != nil {
		return out
	}
	var doc struct {
		Sites []SiteInfo `json:"sites"`
	}
	if json.Unmarshal(b, &doc) != nil {
		return out
	}
	for _, s := range doc.Sites {
		out[s.ID] = s
	}
	return out
}
