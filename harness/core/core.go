// Package core is the property-independent part of the simulator harness:
// seeds, the per-case schedule context, stats, the worker loop, shrinking,
// replay files, known findings and evidence.
package core

import (
	"crypto/sha256"
	"encoding/json"
	"fmt"
	"runtime/debug"
	"sort"
	"strings"

	"verif.local/simrt"
)

// Violation is one firing of a property's oracle.
type Violation struct {
	Class  string `json:"class"`  // oracle class, e.g. "wrong-distance", "panic:index-out-of-range"
	Site   string `json:"site"`   // top library frame (panics/divergence/races) or API op
	Shape  string `json:"shape"`  // shape predicate of the shrunk case (filled by Property.Shape)
	Detail string `json:"detail"` // human readable
}

func (v Violation) Key() string { return v.Class + "|" + v.Site }

// Case is a JSON-serialisable world + history + fault plan.
type Case interface{}

// Property is one checked property: generator, executor/oracle, shrinker.
type Property interface {
	ID() string
	// Plan returns the number of cases and schedules per case for a tier.
	Plan(tier string) Plan
	// Gen builds case number idx from its own PRNG stream.
	Gen(r *simrt.RNG, tier string) Case
	Decode(raw json.RawMessage) (Case, error)
	// Run executes the case under the schedules of ctx and judges it.
	Run(c Case, ctx *Ctx) []Violation
	// Shrink returns strictly smaller candidate cases.
	Shrink(c Case) []Case
	// Shape names the shape predicate that holds on a (shrunk) violating case.
	Shape(c Case, v Violation) string
	// Info gives the static text for the evidence file.
	Info() Info
}

type Plan struct {
	Cases     uint64
	Schedules int
}

type Info struct {
	Rule        string
	Assumptions []string
	Probes      []string // counters that must be > 0, otherwise the check exits 2
	Real        []string
	Simulated   []string
}

// Stats are the measured counters of a batch.
type Stats struct {
	Digest   []byte // running SHA-256 over the event-log hashes of every schedule executed
	C        map[string]uint64
	Distinct map[uint64]struct{}
	Samples  []json.RawMessage
	Sites    map[int32]*simrt.SiteStat
}

func NewStats() *Stats {
	return &Stats{C: map[string]uint64{}, Distinct: map[uint64]struct{}{}, Sites: map[int32]*simrt.SiteStat{}}
}

func (s *Stats) Add(name string, n uint64) { s.C[name] += n }
func (s *Stats) Inc(name string)           { s.C[name]++ }
func (s *Stats) Max(name string, n uint64) {
	if s.C[name] < n {
		s.C[name] = n
	}
}

// Ctx hands a property the simulations (schedules) of one case execution.
type Ctx struct {
	St        *Stats
	schedRoot uint64
	replay    [][]simrt.Ev // non-nil: replay these traces, schedule by schedule
	lenient   bool         // replay falls back to canonical order on divergence
	forceMode int          // >=0: force this order mode (shrinking toward canonical)
	Traces    [][]simrt.Ev // recorded traces of this execution, by schedule index
	Hashes    []string     // event log hash per schedule
	Record    bool
	Verbose   bool
	Texts     [][]string
	sims      []*simrt.Sim
	nsched    int
}

// NumSchedules is how many schedules the property should run this case under.
func (c *Ctx) NumSchedules() int { return c.nsched }

// Begin installs the simulation for schedule k (0-based, ascending order).
func (c *Ctx) Begin(k int) *simrt.Sim {
	Touch()
	var s *simrt.Sim
	if c.replay != nil {
		if k >= len(c.replay) {
			panic(&simrt.Infra{Msg: fmt.Sprintf("replay divergence: no trace for schedule %d", k)})
		}
		s = simrt.NewReplay(c.replay[k])
		s.Lenient = c.lenient
	} else {
		seed := simrt.Mix(c.schedRoot, uint64(k), "sched")
		s = simrt.NewSim(seed)
		r := simrt.NewRNG(simrt.Mix(seed, 1, "mode"))
		if c.forceMode >= 0 {
			s.Mode = simrt.OrderMode(c.forceMode)
		} else if k == 0 {
			s.Mode = simrt.OrderCanonical
		} else {
			// swarm: uniform most often, the extreme modes regularly
			switch x := r.Intn(10); {
			case x < 4:
				s.Mode = simrt.OrderUniform
			case x < 5:
				s.Mode = simrt.OrderReverse
			case x < 6:
				s.Mode = simrt.OrderRotate
			case x < 8:
				s.Mode = simrt.OrderMixed
			default:
				s.Mode = simrt.OrderAdvSite
				s.AdvPick = true
				s.AdvStyle = r.Intn(3)
			}
		}
	}
	s.Record = c.Record
	s.Verbose = c.Verbose
	simrt.Install(s)
	c.sims = append(c.sims, s)
	return s
}

// End uninstalls the simulation of schedule k and collects its statistics.
func (c *Ctx) End(s *simrt.Sim) {
	simrt.Uninstall()
	if left := s.ReplayLeftover(); left > 0 && !c.lenient {
		panic(&simrt.Infra{Msg: fmt.Sprintf("replay divergence: %d trace entries left over", left)})
	}
	if c.Record {
		c.Traces = append(c.Traces, s.Trace)
	}
	lh := s.LogHash()
	c.Hashes = append(c.Hashes, lh)
	d := sha256.Sum256(append(append([]byte{}, c.St.Digest...), lh...))
	c.St.Digest = d[:]
	if c.Verbose {
		c.Texts = append(c.Texts, s.Text)
	}
	st := c.St
	st.Add("schedules", 1)
	st.Add("sim_steps", s.Steps)
	st.Add("s1_choice_points", s.PermCalls)
	st.Add("s1_nonidentity_perms", s.PermNonIdentity)
	st.Add("s2_switches", s.Switches)
	st.Add("order_mode_"+s.Mode.String(), 1)
	if m := s.ThreadMode(); m >= 0 {
		st.Add("preempt_mode_"+[]string{"random", "none", "access", "targeted"}[m], 1)
	}
	st.Max("max_depth_seen", uint64(s.MaxDepthSeen))
	for id, ss := range s.Sites {
		d := st.Sites[id]
		if d == nil {
			d = &simrt.SiteStat{}
			st.Sites[id] = d
		}
		d.Calls += ss.Calls
		d.NonIdentity += ss.NonIdentity
	}
}

// Guard runs fn and converts a panic into (class, site, detail). Infra panics
// are re-raised: they are never violations.
func Guard(fn func()) (panicked bool, class, site, detail string) {
	defer func() {
		if r := recover(); r != nil {
			if inf, ok := r.(*simrt.Infra); ok {
				panic(inf)
			}
			panicked = true
			stack := string(debug.Stack())
			site = TopLibFrame(stack)
			if d, ok := r.(*simrt.Diverged); ok {
				// give the harness a fresh budget: what it does next must not trip
				// over the steps the diverged operation used up
				if simrt.S != nil {
					simrt.S.ResetOp()
				}
				class = "diverged:" + d.Kind
				detail = d.Error()
				site = HotLibFrame(stack)
				return
			}
			msg := fmt.Sprint(r)
			class = "panic:" + PanicClass(msg)
			detail = msg
		}
	}()
	fn()
	return
}

// ClassifyPanic gives class and site for a panic recovered elsewhere (message and stack).
func ClassifyPanic(msg, stack string) (class, site string) {
	return "panic:" + PanicClass(msg), TopLibFrame(stack)
}

// PanicClass reduces a panic message to a stable class.
func PanicClass(msg string) string {
	m := strings.ToLower(msg)
	switch {
	case strings.Contains(m, "simulated failure"):
		return "generator-error"
	case strings.Contains(m, "index out of range"):
		return "index-out-of-range"
	case strings.Contains(m, "nil pointer"):
		return "nil-deref"
	case strings.Contains(m, "didn't reach a final value"):
		return "no-final-value"
	case strings.Contains(m, "reflect"):
		return "reflect"
	case strings.Contains(m, "graph has cycles"):
		return "graph-has-cycles"
	case strings.Contains(m, "nil map"):
		return "nil-map"
	}
	f := strings.Fields(m)
	if len(f) > 4 {
		f = f[:4]
	}
	return strings.Join(f, "-")
}

// HotLibFrame finds the library function that occurs most often in a stack
// dump (the recursing one, for a divergence).
func HotLibFrame(stack string) string {
	cnt := map[string]int{}
	best, bestN := "?", 0
	for _, ln := range strings.Split(stack, "\n") {
		ln = strings.TrimSpace(ln)
		if !strings.HasPrefix(ln, "github.com/hashicorp/go-argmapper") || strings.Contains(ln, "verifshim") || strings.Contains(ln, ".go:") {
			continue
		}
		f := TopLibFrame(ln)
		cnt[f]++
		if cnt[f] > bestN || (cnt[f] == bestN && f < best) {
			best, bestN = f, cnt[f]
		}
	}
	return best
}

// TopLibFrame finds the innermost frame inside the library in a stack dump.
func TopLibFrame(stack string) string {
	for _, ln := range strings.Split(stack, "\n") {
		ln = strings.TrimSpace(ln)
		if !strings.HasPrefix(ln, "github.com/hashicorp/go-argmapper") {
			continue
		}
		if strings.Contains(ln, "verifshim") || strings.Contains(ln, ".go:") {
			continue
		}
		// github.com/hashicorp/go-argmapper.(*Func).reachTarget(0x...)
		if i := strings.LastIndex(ln, "("); i > 0 {
			ln = ln[:i]
		}
		ln = strings.TrimPrefix(ln, "github.com/hashicorp/go-argmapper")
		ln = strings.TrimPrefix(ln, "/internal/")
		ln = strings.TrimPrefix(ln, ".")
		ln = strings.NewReplacer("(*", "", ")", "").Replace(ln)
		// drop closure suffixes .func1.2
		for {
			j := strings.LastIndex(ln, ".")
			if j < 0 {
				break
			}
			suf := ln[j+1:]
			if strings.HasPrefix(suf, "func") || isDigits(suf) {
				ln = ln[:j]
				continue
			}
			break
		}
		return ln
	}
	return "?"
}

func isDigits(s string) bool {
	if s == "" {
		return false
	}
	for _, c := range s {
		if c < '0' || c > '9' {
			return false
		}
	}
	return true
}

// SortedKeys is a helper for deterministic iteration over counters.
func SortedKeys(m map[string]uint64) []string {
	ks := make([]string, 0, len(m))
	for k := range m { // order-insensitive: sorted below
		ks = append(ks, k)
	}
	sort.Strings(ks)
	return ks
}
