package core

import (
	"encoding/binary"
	"encoding/hex"
	"encoding/json"
	"fmt"
	"os"
	"sync/atomic"
	"time"

	"verif.local/simrt"
)

// Found is a violation together with its minimised, replayable case.
type Found struct {
	Property   string          `json:"property"`
	Violation  Violation       `json:"violation"`
	Case       json.RawMessage `json:"case"`
	Traces     [][]simrt.Ev    `json:"schedule_traces"`
	LogHashes  []string        `json:"event_log_sha256"`
	Seed       uint64          `json:"seed"`
	RunIndex   uint64          `json:"run_index"`
	OrigCase   json.RawMessage `json:"unshrunk_case,omitempty"`
	ShrinkRuns int             `json:"shrink_executions"`
	TreeFP     string          `json:"tree_fingerprint"`
	Tool       string          `json:"tool"`
	Note       string          `json:"note,omitempty"`
	NSched     int             `json:"schedules,omitempty"`
}

// WorkerResult is what one worker process reports to the parent.
type WorkerResult struct {
	Counters  map[string]uint64         `json:"counters"`
	Sites     map[int32]*simrt.SiteStat `json:"sites"`
	Samples   []json.RawMessage         `json:"samples"`
	Found     []Found                   `json:"found"`
	KeyCounts map[string]uint64         `json:"key_counts"` // violations seen per class|site (incl. unshrunk)
	Cases     uint64                    `json:"cases"`
	Truncated bool                      `json:"truncated"`
	Infra     string                    `json:"infra,omitempty"`
	Distinct  string                    `json:"distinct_file"`
	Digest    string                    `json:"event_log_digest"`
}

// watchdog state: when the current unit of work (one schedule of one case, or
// one shrink candidate) started.
var caseStart atomic.Int64
var caseIdx atomic.Uint64

// Touch tells the watchdog that progress is being made.
func Touch() { caseStart.Store(time.Now().UnixNano()) }

func newCtx(st *Stats, schedRoot uint64, nsched int) *Ctx {
	return &Ctx{St: st, schedRoot: schedRoot, nsched: nsched, forceMode: -1}
}

// MarkNontrivial records a distinct (world shape, schedule) pair on which the
// property's oracle had something to judge.
func (c *Ctx) MarkNontrivial(shape uint64, s *simrt.Sim) {
	h, _ := hex.DecodeString(s.LogHash()[:16])
	k := shape*0x9e3779b97f4a7c15 ^ binary.LittleEndian.Uint64(h)
	c.St.Distinct[k] = struct{}{}
}

// runCase executes p.Run under guard: a panic escaping the property is infra.
func runCase(p Property, c Case, ctx *Ctx) (v []Violation, infra string) {
	defer func() {
		simrt.Uninstall()
		if r := recover(); r != nil {
			infra = fmt.Sprint(r)
			if e, ok := r.(error); ok {
				infra = e.Error()
			}
		}
	}()
	v = p.Run(c, ctx)
	return
}

func sameViolation(vs []Violation, want Violation) (Violation, bool) {
	for _, v := range vs {
		if v.Class == want.Class && v.Site == want.Site {
			return v, true
		}
	}
	return Violation{}, false
}

func mustJSON(v interface{}) json.RawMessage {
	b, err := json.Marshal(v)
	if err != nil {
		panic(&simrt.Infra{Msg: "marshal: " + err.Error()})
	}
	return b
}

// Shrink minimises case c while a violation of the same class and site
// persists, then simplifies the schedule toward canonical order.
func Shrink(p Property, c Case, want Violation, schedRoot uint64, nsched int, budget int) (Case, Violation, [][]simrt.Ev, []string, int) {
	used := 0
	cur := c
	curV := want
	scratch := NewStats()
	try := func(cand Case, force int, replay [][]simrt.Ev) (Violation, *Ctx, bool) {
		used++
		Touch()
		ctx := newCtx(scratch, schedRoot, nsched)
		ctx.forceMode = force
		ctx.Record = true
		if replay != nil {
			ctx.replay = replay
			ctx.lenient = true
		}
		vs, infra := runCase(p, cand, ctx)
		if infra != "" {
			return Violation{}, ctx, false
		}
		v, ok := sameViolation(vs, want)
		return v, ctx, ok
	}
	// the case failed under these seeds a moment ago, in this process. If it does not
	// fail again now, the code under test keeps state per process (a cache filled by
	// the first execution, say): nothing can be shrunk here. The case is reported as
	// found, without a schedule; the parent has it re-executed and its schedule
	// recorded in a fresh process (cmd/sim replay -rewrite).
	if _, _, ok := try(c, -1, nil); !ok {
		return c, want, nil, nil, used
	}
	for used < budget {
		improved := false
		for _, cand := range p.Shrink(cur) {
			if used >= budget {
				break
			}
			if v, _, ok := try(cand, -1, nil); ok {
				cur, curV, improved = cand, v, true
				break
			}
		}
		if !improved {
			break
		}
	}
	// schedule: all-canonical first
	if v, ctx, ok := try(cur, int(simrt.OrderCanonical), nil); ok {
		return cur, v, ctx.Traces, ctx.Hashes, used
	}
	v, ctx, ok := try(cur, -1, nil)
	if !ok {
		// state kept per process interfered half-way: report the unshrunk case
		return c, want, nil, nil, used
	}
	curV = v
	traces, hashes := ctx.Traces, ctx.Hashes
	// drive single permutations toward identity, leniently
	for k := 0; k < len(traces) && used < budget+200; k++ {
		for i := 0; i < len(traces[k]) && used < budget+200; i++ {
			ev := traces[k][i]
			if ev.K != "P" || isIdentity(ev.V) {
				continue
			}
			cand := cloneTraces(traces)
			// identity from entry i to the end of this schedule: biggest step first
			for j := i; j < len(cand[k]); j++ {
				if cand[k][j].K == "P" {
					cand[k][j].V = identity(cand[k][j].N)
				}
			}
			if v2, ctx2, ok := try(cur, -1, cand); ok {
				traces, hashes, curV = ctx2.Traces, ctx2.Hashes, v2
				break
			}
			cand = cloneTraces(traces)
			cand[k][i].V = identity(ev.N)
			if v2, ctx2, ok := try(cur, -1, cand); ok {
				traces, hashes, curV = ctx2.Traces, ctx2.Hashes, v2
			}
		}
	}
	return cur, curV, traces, hashes, used
}

func isIdentity(p []int) bool {
	for i, v := range p {
		if i != v {
			return false
		}
	}
	return true
}

func identity(n int) []int {
	p := make([]int, n)
	for i := range p {
		p[i] = i
	}
	return p
}

func cloneTraces(t [][]simrt.Ev) [][]simrt.Ev {
	out := make([][]simrt.Ev, len(t))
	for i := range t {
		out[i] = make([]simrt.Ev, len(t[i]))
		for j, e := range t[i] {
			e.V = append([]int(nil), e.V...)
			out[i][j] = e
		}
	}
	return out
}

// Worker runs case indices lo, lo+stride, ... < hi and writes its result.
func Worker(p Property, tier string, root, lo, hi, stride uint64, deadline time.Time, outPath, progressPath, treeFP string) {
	plan := p.Plan(tier)
	st := NewStats()
	res := WorkerResult{KeyCounts: map[string]uint64{}}
	shrunkPerKey := map[string]int{}
	maxShrinkPerKey := 3
	var prog *os.File
	if progressPath != "" {
		prog, _ = os.Create(progressPath)
	}
	// watchdog: a single case that runs for minutes of wall time is stuck in code
	// the step budget cannot see; dying lets the parent re-run that index and
	// report it as a crash that reproduces (or as infrastructure trouble if not)
	go func() {
		for {
			time.Sleep(2 * time.Second)
			if st := caseStart.Load(); st != 0 && time.Since(time.Unix(0, st)) > 180*time.Second {
				fmt.Fprintf(os.Stderr, "watchdog: case %d of %s has been running for 3 minutes; giving up on this worker\n", caseIdx.Load(), p.ID())
				os.Exit(3)
			}
		}
	}()
	for idx := lo; idx < hi; idx += stride {
		caseIdx.Store(idx)
		caseStart.Store(time.Now().UnixNano())
		if !deadline.IsZero() && idx%8 == lo%8 && time.Now().After(deadline) {
			res.Truncated = true
			break
		}
		if prog != nil {
			var b [8]byte
			binary.LittleEndian.PutUint64(b[:], idx)
			prog.WriteAt(b[:], 0)
		}
		c := p.Gen(simrt.NewRNG(simrt.Mix(root, idx, "world")), tier)
		schedRoot := simrt.Mix(root, idx, "schedroot")
		ctx := newCtx(st, schedRoot, plan.Schedules)
		vs, infra := runCase(p, c, ctx)
		res.Cases++
		if infra != "" {
			res.Infra = fmt.Sprintf("run %d: %s; case=%s", idx, infra, string(mustJSON(c)))
			break
		}
		if len(res.Samples) < 2 {
			res.Samples = append(res.Samples, mustJSON(c))
		}
		seen := map[string]bool{}
		for _, v := range vs {
			k := v.Key()
			if seen[k] {
				continue
			}
			seen[k] = true
			res.KeyCounts[k]++
			if shrunkPerKey[k] >= maxShrinkPerKey {
				continue
			}
			shrunkPerKey[k]++
			sc, sv, traces, hashes, used := Shrink(p, c, v, schedRoot, plan.Schedules, 900)
			sv.Shape = p.Shape(sc, sv)
			fd := Found{
				Property: p.ID(), Violation: sv, Case: mustJSON(sc), Traces: traces, LogHashes: hashes,
				Seed: root, RunIndex: idx, OrigCase: mustJSON(c), ShrinkRuns: used, TreeFP: treeFP,
				Tool: "verif sim harness", NSched: plan.Schedules,
			}
			if traces == nil {
				fd.Note = "did not recur on an identical re-run within the worker process (state kept per process): not shrunk; schedule = the seeded one of this run index, to be recorded in a fresh process"
			}
			res.Found = append(res.Found, fd)
		}
	}
	res.Counters = st.C
	res.Digest = hex.EncodeToString(st.Digest)
	res.Sites = st.Sites
	// distinct set to a side file
	if outPath != "" {
		df := outPath + ".distinct"
		buf := make([]byte, 0, 8*len(st.Distinct))
		var b [8]byte
		for k := range st.Distinct { // order-insensitive: a set, merged by the parent
			binary.LittleEndian.PutUint64(b[:], k)
			buf = append(buf, b[:]...)
		}
		os.WriteFile(df, buf, 0o644)
		res.Distinct = df
	}
	js := mustJSON(res)
	if outPath == "" {
		os.Stdout.Write(js)
	} else {
		os.WriteFile(outPath, js, 0o644)
	}
}

// Replay re-executes a Found in this process. strict: traces must fit exactly.
func Replay(p Property, f Found, strict bool, verbose bool) (reproduced bool, got []Violation, hashes []string, texts [][]string, infra string) {
	reproduced, got, hashes, texts, _, infra = ReplayTraces(p, f, strict, verbose)
	return
}

// ReplayTraces is Replay that also returns the schedule traces this execution recorded.
func ReplayTraces(p Property, f Found, strict bool, verbose bool) (reproduced bool, got []Violation, hashes []string, texts [][]string, traces [][]simrt.Ev, infra string) {
	c, err := p.Decode(f.Case)
	if err != nil {
		return false, nil, nil, nil, nil, "decode: " + err.Error()
	}
	ctx := newCtx(NewStats(), 0, len(f.Traces))
	ctx.replay = f.Traces
	ctx.lenient = !strict
	ctx.Verbose = verbose
	ctx.Record = true
	vs, infra := runCase(p, c, ctx)
	if infra != "" {
		return false, nil, nil, nil, nil, infra
	}
	_, ok := sameViolation(vs, f.Violation)
	return ok, vs, ctx.Hashes, ctx.Texts, ctx.Traces, ""
}

// ReplaySeeded re-executes the case of a Found under the seeded schedules of its run
// index (exactly what the worker did), recording the traces: for Founds that carry
// no schedule of their own.
func ReplaySeeded(p Property, f Found) (reproduced bool, got []Violation, hashes []string, traces [][]simrt.Ev, infra string) {
	c, err := p.Decode(f.Case)
	if err != nil {
		return false, nil, nil, nil, "decode: " + err.Error()
	}
	n := f.NSched
	if n <= 0 {
		n = 4
	}
	ctx := newCtx(NewStats(), Mix64(f.Seed, f.RunIndex), n)
	ctx.Record = true
	vs, infra := runCase(p, c, ctx)
	if infra != "" {
		return false, nil, nil, nil, infra
	}
	_, ok := sameViolation(vs, f.Violation)
	return ok, vs, ctx.Hashes, ctx.Traces, ""
}

// ReplayFresh re-executes the case of a Found under nsched fresh PRNG schedules
// (used for order-dependent witnesses whose recorded trace no longer fits the
// tree: the violation needs "some order", not that exact one).
func ReplayFresh(p Property, f Found, nsched int) (reproduced bool, got []Violation, infra string) {
	c, err := p.Decode(f.Case)
	if err != nil {
		return false, nil, "decode: " + err.Error()
	}
	if n := len(f.Traces); n > nsched {
		nsched = n
	}
	ctx := newCtx(NewStats(), Mix64(f.Seed, f.RunIndex), nsched)
	vs, infra := runCase(p, c, ctx)
	if infra != "" {
		return false, nil, infra
	}
	_, ok := sameViolation(vs, f.Violation)
	return ok, vs, ""
}

// Mix64 derives the schedule root of a run index exactly as the worker does.
func Mix64(root, idx uint64) uint64 { return simrt.Mix(root, idx, "schedroot") }
