// sim is the simulator harness binary: parent (check), worker and replay.
package main

import (
	"encoding/json"
	"flag"
	"fmt"
	"os"
	"strings"
	"time"

	"verif.local/harness/core"
	"verif.local/harness/gprops"
)

func registry() map[string]core.Property {
	m := map[string]core.Property{}
	for _, p := range []core.Property{gprops.C18{}, gprops.C19{}, gprops.C20{}} {
		m[p.ID()] = p
	}
	for _, p := range extraProps() {
		m[p.ID()] = p
	}
	return m
}

func main() {
	if len(os.Args) < 2 {
		fmt.Fprintln(os.Stderr, "usage: sim check|worker|replay ...")
		os.Exit(2)
	}
	cmd := os.Args[1]
	fs := flag.NewFlagSet(cmd, flag.ExitOnError)
	prop := fs.String("prop", "", "property id")
	tier := fs.String("tier", "quick", "quick|thorough")
	seed := fs.Uint64("seed", 1, "VERIF_SEED")
	workers := fs.Int("workers", 0, "worker processes")
	verif := fs.String("verif", "/verif", "verif directory")
	scratch := fs.String("scratch", os.TempDir(), "scratch dir")
	treefp := fs.String("treefp", "", "tree fingerprint")
	sites := fs.String("sites", "", "sites json written by the weaver")
	maxwall := fs.Duration("maxwall", 0, "soft wall-clock cap for exploration")
	lo := fs.Uint64("lo", 0, "")
	hi := fs.Uint64("hi", 0, "")
	stride := fs.Uint64("stride", 1, "")
	out := fs.String("out", "", "")
	progress := fs.String("progress", "", "")
	deadline := fs.Int64("deadline", 0, "")
	file := fs.String("file", "", "replay file")
	rewrite := fs.Bool("rewrite", false, "replay: re-record the schedule in this (fresh) process if the recorded one does not reproduce the same event log")
	lenient := fs.Bool("lenient", false, "replay: fall back to canonical order when the trace no longer fits")
	quiet := fs.Bool("quiet", false, "")
	verbose := fs.Bool("v", false, "replay: print the event log")
	fs.Parse(os.Args[2:])
	reg := registry()
	p, ok := reg[*prop]
	if !ok && cmd != "list" {
		fmt.Fprintf(os.Stderr, "unknown property %q\n", *prop)
		os.Exit(2)
	}
	switch cmd {
	case "list":
		var ids []string
		for id := range reg { // order-insensitive: printed as a set
			ids = append(ids, id)
		}
		fmt.Println(strings.Join(ids, " "))
	case "check":
		os.Exit(core.Check(p, core.CheckOpts{Tier: *tier, Seed: *seed, Workers: *workers, VerifDir: *verif,
			Scratch: *scratch, TreeFP: *treefp, SitesJSON: *sites, MaxWall: *maxwall}))
	case "worker":
		var dl time.Time
		if *deadline > 0 {
			dl = time.Unix(0, *deadline)
		}
		core.Worker(p, *tier, *seed, *lo, *hi, *stride, dl, *out, *progress, *treefp)
	case "replay":
		b, err := os.ReadFile(*file)
		if err != nil {
			fmt.Fprintln(os.Stderr, err)
			os.Exit(2)
		}
		var f core.Found
		if err := json.Unmarshal(b, &f); err != nil {
			fmt.Fprintln(os.Stderr, err)
			os.Exit(2)
		}
		strict := !*lenient
		if len(f.Traces) == 0 {
			// found without a schedule (see core.Shrink): run the seeded schedules of its run index
			rep, got, hashes, traces, infra := core.ReplaySeeded(p, f)
			if infra != "" {
				fmt.Fprintln(os.Stderr, "infra:", infra)
				os.Exit(2)
			}
			if *rewrite {
				if rep {
					f.Traces, f.LogHashes = traces, hashes
					f.Note += "; recorded in a fresh process"
					if js, err := json.MarshalIndent(f, "", " "); err == nil {
						os.WriteFile(*file, js, 0o644)
					}
				}
				os.Exit(0)
			}
			if rep {
				if !*quiet {
					fmt.Printf("reproduced: class=%s site=%s event-log-identical=%v (no recorded schedule: seeded schedules of run %d)\n", f.Violation.Class, f.Violation.Site, false, f.RunIndex)
					for _, v := range got {
						fmt.Printf("  %s @%s: %s\n", v.Class, v.Site, v.Detail)
					}
					fmt.Printf("VIOLATION property=%s replay=%s\n", p.ID(), *file)
				}
				os.Exit(1)
			}
			if !*quiet {
				fmt.Printf("not reproduced: the recorded violation (class=%s site=%s) does not occur on this tree\n", f.Violation.Class, f.Violation.Site)
			}
			os.Exit(0)
		}
		rep, got, hashes, texts, traces, infra := core.ReplayTraces(p, f, strict, *verbose)
		if infra != "" && strict {
			// the tree may have changed since the file was written: retry leniently, say so
			if !*rewrite {
				fmt.Fprintf(os.Stderr, "strict replay failed (%s); retrying with lenient schedule\n", infra)
			}
			rep, got, hashes, texts, traces, infra = core.ReplayTraces(p, f, false, *verbose)
			strict = false
		}
		if *rewrite {
			// called by the parent right after a replay file was written by a worker that
			// had executed other cases before: if the code under test keeps state per
			// process, the worker's schedule does not fit a fresh process. Re-record the
			// schedule here, in a fresh process, so that the file replays exactly in one.
			differs := len(hashes) != len(f.LogHashes)
			for i := 0; !differs && i < len(hashes); i++ {
				differs = hashes[i] != f.LogHashes[i]
			}
			if infra == "" && rep && differs && len(traces) == len(hashes) && len(traces) > 0 {
				f.Traces, f.LogHashes = traces, hashes
				f.Note = "schedule re-recorded in a fresh process (the worker's did not fit one: state kept per process)"
				if js, err := json.MarshalIndent(f, "", " "); err == nil {
					os.WriteFile(*file, js, 0o644)
				}
			}
			os.Exit(0)
		}
		if infra != "" {
			fmt.Fprintln(os.Stderr, "infra:", infra)
			os.Exit(2)
		}
		if !rep && !strict {
			// the recorded schedule may no longer fit this tree: an order-dependent
			// violation is looked for again under fresh seeded schedules
			if r2, g2, inf2 := core.ReplayFresh(p, f, 48); inf2 == "" && r2 {
				rep, got = true, g2
				if !*quiet {
					fmt.Println("reproduced under fresh seeded schedules (the recorded trace no longer fits this tree)")
				}
			}
		}
		if *verbose {
			for k, t := range texts {
				fmt.Printf("--- schedule %d event log ---\n", k)
				for _, l := range t {
					fmt.Println(l)
				}
			}
		}
		same := len(hashes) == len(f.LogHashes)
		for i := range hashes {
			if !same || hashes[i] != f.LogHashes[i] {
				same = false
				break
			}
		}
		if rep {
			if !*quiet {
				fmt.Printf("reproduced: class=%s site=%s event-log-identical=%v (tree fingerprint recorded %s, now %s)\n", f.Violation.Class, f.Violation.Site, same, f.TreeFP, *treefp)
				for _, v := range got {
					fmt.Printf("  %s @%s: %s\n", v.Class, v.Site, v.Detail)
				}
				fmt.Printf("VIOLATION property=%s replay=%s\n", p.ID(), *file)
			}
			os.Exit(1)
		}
		if !*quiet {
			fmt.Printf("not reproduced: the recorded violation (class=%s site=%s) does not occur on this tree; other violations seen: %d\n", f.Violation.Class, f.Violation.Site, len(got))
		}
		os.Exit(0)
	default:
		fmt.Fprintln(os.Stderr, "unknown command", cmd)
		os.Exit(2)
	}
}
