package main

import (
	"verif.local/harness/core"
	"verif.local/harness/props"
)

func extraProps() []core.Property {
	return []core.Property{props.C01{}, props.C03{}, props.C04{}, props.C02{}, props.C06{}, props.C05{}, props.C13{}, props.C10{}, props.C07{}, props.C16{}, props.C09{}, props.C08{}, props.C15{}, props.C11{}, props.C12{}}
}
