package main

import "verif.local/harness/core"

func extraProps() []core.Property { return nil }
