package gprops

import (
	"encoding/json"
	"fmt"
	"sort"
	"strings"

	"github.com/hashicorp/go-argmapper/verifshim/graphx"
	"verif.local/harness/core"
	"verif.local/simrt"
)

// C19: histories of graph mutations, copies and reversed views vs. an
// adjacency reference model, op by op.

type GOp struct {
	Op string `json:"op"` // add | addow | edge | edgew | rmedge | rm | copy | rev | revdrop
	H  int    `json:"h"`  // handle (modulo live handles)
	A  int    `json:"a"`
	B  int    `json:"b"`
	W  int    `json:"w"`
}

type C19Case struct {
	Pool  int   `json:"pool"`  // vertex pool size
	Kinds []int `json:"kinds"` // vertex kinds
	Ops   []GOp `json:"ops"`
	// Every > 1: the handles are compared with the model only after every Every-th operation
	// (and after the last): looking at a graph must not be what keeps it consistent
	Every int `json:"every,omitempty"`
}

type C19 struct{}

func (C19) ID() string { return "C19" }

func (C19) Plan(tier string) core.Plan {
	if tier == "thorough" {
		return core.Plan{Cases: 500000, Schedules: 3}
	}
	return core.Plan{Cases: 50000, Schedules: 2}
}

func (C19) Info() core.Info {
	return core.Info{
		Rule: "seeded histories of 5-60 operations (Add, AddOverwrite, AddEdge, AddEdgeWeighted, RemoveEdge, Remove, Copy, Reverse) over a pool of <=8 vertices (int, string, hash-code vertices incl. distinct Go values with one hash code) and a growing family of live handles (original, copies, reversed views, copies of views); after every operation every handle is compared with its adjacency model (vertex set and representative, successor and predecessor sets, mirror, weights via String() and, while all weights are non-negative, a one-source Dijkstra); a quarter of the histories also set negative weights, as the resolver does; a fifth start by taking and dropping a reversed view of the still empty graph. Non-trivial: history contains a Copy or Reverse and a removal; distinct = distinct (history hash, event-log hash)",
		Assumptions: []string{
			"edges are only added between vertices present in the graph (adding an edge to an absent vertex is outside the statement: documented as a no-op, it panics on a nil map today)",
			"Reverse is only taken of a graph that already holds a vertex (a zero-value Graph has no maps to share yet)",
			"no fault kind applies to this property; S1 only permutes the order of returned slices, which are compared as sets",
		},
		Probes:    []string{"c19_ops", "c19_copy", "c19_rev", "c19_rev_taken_and_dropped", "c19_ops_without_a_look", "c19_rm_with_edges", "c19_overwrite_with_edges", "c19_weight_overwritten", "c19_mutation_through_view", "c19_negative_weight"},
		Real:      []string{"internal/graph (woven copy): Add, AddOverwrite, AddEdge, AddEdgeWeighted, RemoveEdge, Remove, Vertex, Vertices, OutEdges, InEdges, Copy, Reverse, String, Dijkstra"},
		Simulated: []string{"map iteration order at every range site (S1)"},
	}
}

func (C19) Gen(r *simrt.RNG, tier string) core.Case {
	c := C19Case{Pool: 2 + r.Intn(7)}
	km := r.Intn(4)
	for i := 0; i < c.Pool; i++ {
		k := km
		if km == 3 {
			k = r.Intn(3)
		}
		c.Kinds = append(c.Kinds, k)
	}
	if km == 2 && r.Chance(1, 3) {
		// hash-code vertices that all print alike (names are for display only)
		for i := range c.Kinds {
			if r.Bool() {
				c.Kinds[i] = 4
			}
		}
	}
	n := 5 + r.Intn(56)
	if r.Chance(1, 4) {
		c.Every = 2 + r.Intn(6)
	}
	negW := r.Chance(1, 4)
	// op mix weights vary per run (swarm)
	wAdd, wEdge, wRm, wRmE, wCopy, wRev, wOw := 3+r.Intn(4), 4+r.Intn(8), r.Intn(4), r.Intn(4), r.Intn(3), r.Intn(3), r.Intn(3)
	if r.Chance(1, 8) {
		// churn: long histories that keep removing and re-adding (whatever the structure
		// does after many removals happens here), with a view or copy alive
		wAdd, wRm, wRev, wCopy = 8+r.Intn(4), 8+r.Intn(4), 1+r.Intn(2), r.Intn(2)
		n = 60 + r.Intn(90)
	}
	tot := wAdd + wEdge + wRm + wRmE + wCopy + wRev + wOw
	if r.Chance(1, 5) {
		// a reversed view taken of the still empty graph and dropped: it must not matter later
		c.Ops = append(c.Ops, GOp{Op: "revdrop", H: 0})
	}
	c.Ops = append(c.Ops, GOp{Op: "add", H: 0, A: r.Intn(c.Pool)})
	for i := 1; i < n; i++ {
		x := r.Intn(tot)
		op := GOp{H: r.Intn(8), A: r.Intn(c.Pool), B: r.Intn(c.Pool), W: r.Intn(10)}
		if negW && r.Chance(1, 4) {
			op.W = -1 - r.Intn(3) // negative weights are legal for the structure (the resolver sets -1)
		}
		switch {
		case x < wAdd:
			op.Op = "add"
		case x < wAdd+wEdge:
			if r.Chance(1, 2) {
				op.Op = "edge"
			} else {
				op.Op = "edgew"
			}
		case x < wAdd+wEdge+wRm:
			op.Op = "rm"
		case x < wAdd+wEdge+wRm+wRmE:
			op.Op = "rmedge"
		case x < wAdd+wEdge+wRm+wRmE+wCopy:
			op.Op = "copy"
		case x < wAdd+wEdge+wRm+wRmE+wCopy+wRev:
			op.Op = "rev"
		default:
			op.Op = "addow"
		}
		c.Ops = append(c.Ops, op)
	}
	return c
}

func (C19) Decode(raw json.RawMessage) (core.Case, error) {
	var c C19Case
	err := json.Unmarshal(raw, &c)
	return c, err
}

func (C19) Shape(c core.Case, v core.Violation) string { return "any" }

func (C19) Shrink(c core.Case) []core.Case {
	cc := c.(C19Case)
	var out []core.Case
	// drop chunks then single ops (the first op always stays: it initialises the graph)
	for size := len(cc.Ops) / 2; size >= 1; size /= 2 {
		for i := 1; i+size <= len(cc.Ops); i += size {
			n := cc
			n.Ops = append(append([]GOp{}, cc.Ops[:i]...), cc.Ops[i+size:]...)
			out = append(out, n)
		}
	}
	allInt := true
	for _, k := range cc.Kinds {
		if k != 0 {
			allInt = false
		}
	}
	if !allInt {
		n := cc
		n.Kinds = make([]int, len(cc.Kinds))
		out = append(out, n)
	}
	for i, op := range cc.Ops {
		if op.W > 1 {
			n := cc
			n.Ops = append([]GOp{}, cc.Ops...)
			n.Ops[i].W = 1
			out = append(out, n)
		}
	}
	return out
}

// store is the model of one underlying graph state.
type store struct {
	present map[int]int    // vertex -> generation of its representative
	adj     map[[2]int]int // edge -> weight
}

type handle struct {
	st  *store
	rev bool
	g   *graphx.Graph
}

func (s *store) clone(rev bool) *store {
	n := &store{present: map[int]int{}, adj: map[[2]int]int{}}
	for k, v := range s.present { // order-insensitive: copy
		n.present[k] = v
	}
	for k, v := range s.adj { // order-insensitive: copy
		if rev {
			n.adj[[2]int{k[1], k[0]}] = v
		} else {
			n.adj[k] = v
		}
	}
	return n
}

func (h *handle) edge(a, b int) [2]int {
	if h.rev {
		return [2]int{b, a}
	}
	return [2]int{a, b}
}

func idSet(vs []graphx.Vertex) []int {
	out := make([]int, 0, len(vs))
	for _, v := range vs {
		out = append(out, idOf(graphx.VertexID(v)))
	}
	sort.Ints(out)
	return out
}

func eqInts(a, b []int) bool {
	if len(a) != len(b) {
		return false
	}
	for i := range a {
		if a[i] != b[i] {
			return false
		}
	}
	return true
}

func (C19) Run(c core.Case, ctx *core.Ctx) []core.Violation {
	cc := c.(C19Case)
	var out []core.Violation
	add := func(class, site, detail string) {
		out = append(out, core.Violation{Class: class, Site: site, Detail: detail})
	}
	hh := uint64(14695981039346656037)
	for _, op := range cc.Ops {
		for _, x := range []int{len(op.Op), int(op.Op[0]), op.H, op.A, op.B, op.W} {
			hh = (hh ^ uint64(x+3)) * 1099511628211
		}
	}
	hasCR, hasRm := false, false
	for _, op := range cc.Ops {
		if op.Op == "copy" || op.Op == "rev" {
			hasCR = true
		}
		if op.Op == "rm" || op.Op == "rmedge" {
			hasRm = true
		}
	}
	for k := 0; k < ctx.NumSchedules(); k++ {
		sim := ctx.Begin(k)
		sim.MaxSteps = 2000000
		// vertex values by (index, generation)
		reps := map[[2]int]graphx.Vertex{}
		vertex := func(i, gen int) graphx.Vertex {
			key := [2]int{i, gen}
			if v, ok := reps[key]; ok {
				return v
			}
			v := vertexOf(cc.Kinds[i], i, gen)
			reps[key] = v
			return v
		}
		gen := 0
		root := &handle{st: &store{present: map[int]int{}, adj: map[[2]int]int{}}, g: &graphx.Graph{}}
		handles := []*handle{root}
		failed := false
		for oi, op := range cc.Ops {
			if failed {
				break
			}
			h := handles[op.H%len(handles)]
			sim.ResetOp()
			sim.Event("gop", uint64(oi))
			ctx.St.Inc("c19_ops")
			if h != root && (op.Op != "copy" && op.Op != "rev") && h.st == root.st {
				ctx.St.Inc("c19_mutation_through_view")
			}
			p, class, site, detail := core.Guard(func() {
				switch op.Op {
				case "add":
					if _, ok := h.st.present[op.A]; !ok {
						h.st.present[op.A] = 0
					}
					h.g.Add(vertex(op.A, h.st.present[op.A]))
				case "addow":
					gen++
					if _, ok := h.st.present[op.A]; ok {
						for e := range h.st.adj { // order-insensitive: probe only
							if e[0] == op.A || e[1] == op.A {
								ctx.St.Inc("c19_overwrite_with_edges")
								break
							}
						}
					}
					if cc.Kinds[op.A] != 2 && cc.Kinds[op.A] != 4 {
						// ints and strings have one Go value per vertex: overwrite keeps it
						if _, ok := h.st.present[op.A]; !ok {
							h.st.present[op.A] = 0
						}
						h.g.AddOverwrite(vertex(op.A, h.st.present[op.A]))
					} else {
						h.st.present[op.A] = gen
						h.g.AddOverwrite(vertex(op.A, gen))
					}
				case "edge", "edgew":
					ga, oka := h.st.present[op.A]
					gb, okb := h.st.present[op.B]
					if !oka || !okb {
						return // outside the statement (see assumptions)
					}
					w := 1
					if op.Op == "edgew" {
						w = op.W
					}
					e := h.edge(op.A, op.B)
					if old, ok := h.st.adj[e]; ok && old != w {
						ctx.St.Inc("c19_weight_overwritten")
					}
					if w < 0 {
						ctx.St.Inc("c19_negative_weight")
					}
					h.st.adj[e] = w
					if op.Op == "edge" {
						h.g.AddEdge(vertex(op.A, ga), vertex(op.B, gb))
					} else {
						h.g.AddEdgeWeighted(vertex(op.A, ga), vertex(op.B, gb), w)
					}
				case "rmedge":
					delete(h.st.adj, h.edge(op.A, op.B))
					// use any Go value with that identity, present or not
					h.g.RemoveEdge(vertexOf(cc.Kinds[op.A], op.A, 9999), vertexOf(cc.Kinds[op.B], op.B, 9999))
				case "rm":
					for e := range h.st.adj { // order-insensitive: deletes all matching
						if e[0] == op.A || e[1] == op.A {
							delete(h.st.adj, e)
							ctx.St.Inc("c19_rm_with_edges")
						}
					}
					delete(h.st.present, op.A)
					h.g.Remove(vertexOf(cc.Kinds[op.A], op.A, 9999))
				case "copy":
					if len(handles) >= 6 {
						return
					}
					ctx.St.Inc("c19_copy")
					handles = append(handles, &handle{st: h.st.clone(h.rev), g: h.g.Copy()})
				case "revdrop":
					ctx.St.Inc("c19_rev_taken_and_dropped")
					_ = h.g.Reverse()
				case "rev":
					if len(handles) >= 6 || len(h.st.present) == 0 {
						return
					}
					ctx.St.Inc("c19_rev")
					handles = append(handles, &handle{st: h.st, rev: !h.rev, g: h.g.Reverse()})
				}
			})
			if p {
				add(class, site, fmt.Sprintf("op %d %+v: %s", oi, op, detail))
				failed = true
				break
			}
			// compare every handle with its model
			if cc.Every > 1 && oi%cc.Every != 0 && oi != len(cc.Ops)-1 {
				ctx.St.Inc("c19_ops_without_a_look")
				continue
			}
			for hi, hd := range handles {
				if msg := compareHandle(hd, cc, sim, oi == len(cc.Ops)-1 || oi%7 == 0); msg != "" {
					parts := strings.SplitN(msg, ":", 2)
					add(parts[0], "graph", fmt.Sprintf("after op %d %+v, handle %d (rev=%v): %s", oi, op, hi, hd.rev, parts[1]))
					failed = true
					break
				}
			}
		}
		if hasCR && hasRm {
			ctx.MarkNontrivial(hh, sim)
		}
		ctx.End(sim)
	}
	return out
}

// compareHandle returns "" or "class: detail".
func compareHandle(h *handle, cc C19Case, sim *simrt.Sim, deep bool) (msg string) {
	p, class, _, detail := core.Guard(func() {
		// vertex set and representatives
		var wantV []int
		for v := range h.st.present { // order-insensitive: sorted below
			wantV = append(wantV, v)
		}
		sort.Ints(wantV)
		gotV := idSet(h.g.Vertices())
		if !eqInts(gotV, wantV) {
			msg = fmt.Sprintf("vertices-mismatch: got %v want %v", gotV, wantV)
			return
		}
		for i := 0; i < cc.Pool; i++ {
			probe := vertexOf(cc.Kinds[i], i, 9999)
			got := h.g.Vertex(graphx.VertexID(probe))
			g, ok := h.st.present[i]
			if !ok {
				if got != nil {
					msg = fmt.Sprintf("vertices-mismatch: removed vertex %d still resolvable", i)
					return
				}
				if len(h.g.OutEdges(probe)) != 0 || len(h.g.InEdges(probe)) != 0 {
					msg = fmt.Sprintf("dangling-edges: absent vertex %d still has edges", i)
					return
				}
				continue
			}
			if got == nil {
				msg = fmt.Sprintf("vertices-mismatch: vertex %d not resolvable", i)
				return
			}
			if hvv, isH := got.(*hv); isH && hvv.Gen != g {
				msg = fmt.Sprintf("representative-mismatch: vertex %d has generation %d want %d", i, hvv.Gen, g)
				return
			}
			var wantOut, wantIn []int
			for e := range h.st.adj { // order-insensitive: sorted below
				a, b := e[0], e[1]
				if h.rev {
					a, b = b, a
				}
				if a == i {
					wantOut = append(wantOut, b)
				}
				if b == i {
					wantIn = append(wantIn, a)
				}
			}
			sort.Ints(wantOut)
			sort.Ints(wantIn)
			if gotOut := idSet(h.g.OutEdges(probe)); !eqInts(gotOut, wantOut) {
				msg = fmt.Sprintf("out-edges-mismatch: vertex %d successors %v want %v", i, gotOut, wantOut)
				return
			}
			if gotIn := idSet(h.g.InEdges(probe)); !eqInts(gotIn, wantIn) {
				msg = fmt.Sprintf("in-edges-mismatch: vertex %d predecessors %v want %v", i, gotIn, wantIn)
				return
			}
		}
		if !deep {
			return
		}
		// weights, through a one-source search from every vertex
		n := cc.Pool
		ms := GraphSpec{N: n}
		for e, w := range h.st.adj { // order-insensitive: builds a matrix
			a, b := e[0], e[1]
			if h.rev {
				a, b = b, a
			}
			ms.Edges = append(ms.Edges, [3]int{a, b, w})
		}
		sort.Slice(ms.Edges, func(i, j int) bool {
			if ms.Edges[i][0] != ms.Edges[j][0] {
				return ms.Edges[i][0] < ms.Edges[j][0]
			}
			return ms.Edges[i][1] < ms.Edges[j][1]
		})
		fw := buildModel(ms).floyd()
		negative := false
		for _, e := range ms.Edges {
			if e[2] < 0 {
				negative = true
			}
		}
		for src := 0; src < n && !negative; src++ { // the search needs non-negative weights
			if _, ok := h.st.present[src]; !ok {
				continue
			}
			dist, _ := h.g.Dijkstra(vertexOf(cc.Kinds[src], src, 9999))
			for v := 0; v < n; v++ {
				if _, ok := h.st.present[v]; !ok || fw[src][v] >= inf {
					continue
				}
				if d := dist[graphx.VertexID(vertexOf(cc.Kinds[v], v, 9999))]; d != fw[src][v] {
					msg = fmt.Sprintf("weight-mismatch: distance %d->%d is %d, model says %d", src, v, d, fw[src][v])
					return
				}
			}
		}
		// exact weights through the textual rendering (which lists vertices by name:
		// not meaningful once two present vertices print alike)
		sameNamed := 0
		for v := range h.st.present { // order-insensitive: count
			if cc.Kinds[v] == 4 {
				sameNamed++
			}
		}
		if sameNamed >= 2 {
			return
		}
		txt := h.g.String()
		for e, w := range h.st.adj { // order-insensitive: every edge checked
			a, b := e[0], e[1]
			if h.rev {
				a, b = b, a
			}
			an := graphx.VertexName(h.g.Vertex(graphx.VertexID(vertexOf(cc.Kinds[a], a, 9999))))
			bn := graphx.VertexName(h.g.Vertex(graphx.VertexID(vertexOf(cc.Kinds[b], b, 9999))))
			if !hasEdgeLine(txt, an, bn, w) {
				msg = fmt.Sprintf("weight-mismatch: rendering lacks edge %s -> %s (%d):%s", an, bn, w, strings.ReplaceAll(txt, "\n", "|"))
				return
			}
		}
	})
	if p {
		return class + ": " + detail
	}
	return msg
}

func hasEdgeLine(txt, from, to string, w int) bool {
	lines := strings.Split(txt, "\n")
	in := false
	for _, l := range lines {
		if !strings.HasPrefix(l, "  ") {
			in = l == from
			continue
		}
		if in && l == fmt.Sprintf("  %s (%d)", to, w) {
			return true
		}
	}
	return false
}
