package gprops

import (
	"encoding/json"
	"fmt"
	"sort"

	"github.com/hashicorp/go-argmapper/verifshim/graphx"
	"verif.local/harness/core"
	"verif.local/simrt"
)

// C20: DFS / KahnSort / StronglyConnected / TopoShortestPath under seeded
// iteration orders vs. a closure model.

type C20Case struct {
	Graph   GraphSpec `json:"graph"`
	Mode    string    `json:"mode"` // dfs | kahn | scc | toposp
	Start   int       `json:"start"`
	Decline []int     `json:"decline"` // dfs: vertices whose callback does not descend
	Reverse bool      `json:"reverse"`
	// Churn: before the traversal, for each pair (a, b) a fresh vertex x is added
	// with edges a->x and x->b and removed again. The digraph is the same one; a
	// Remove that leaves half an edge behind shows up in the traversal (w9-C20-1).
	Churn [][2]int `json:"churn,omitempty"`
}

type C20 struct{}

func (C20) ID() string { return "C20" }

func (C20) Plan(tier string) core.Plan {
	if tier == "thorough" {
		return core.Plan{Cases: 600000, Schedules: 16}
	}
	return core.Plan{Cases: 60000, Schedules: 6}
}

func (C20) Info() core.Info {
	return core.Info{
		Rule: "random digraphs, DAGs and single-rooted DAGs (1-10 vertices, int/string/hash-code vertices) run through DFS (with a PRNG-chosen set of declining callbacks), KahnSort (cyclic graphs must panic), StronglyConnected and TopoShortestPath(KahnSort) vs. Dijkstra, each under several seeded map-iteration schedules; compared with a Warshall-closure model. Non-trivial: >=3 vertices and >=2 edges; distinct = distinct (mode, graph shape, start, decliners, event-log hash)",
		Assumptions: []string{
			"DFS callbacks decline by vertex identity (a pure function of the vertex)",
			"TopoShortestPath is compared only on single-rooted acyclic graphs, as the statement says",
		},
		Probes:    []string{"c20_dfs_runs", "c20_dfs_started_from_equal_value", "c20_dfs_decliner_reported", "c20_kahn_acyclic", "c20_kahn_cyclic_panicked", "c20_scc_multi", "c20_toposp_runs", "s1_nonidentity_perms"},
		Real:      []string{"internal/graph (woven copy): DFS, KahnSort, Copy, RemoveEdge, StronglyConnected/Cycles, TopoShortestPath, Dijkstra, EdgeToPath"},
		Simulated: []string{"map iteration order at every range site (S1)", "step/depth budget (S4)", "the DFS callback (S3: declines by a seeded set)"},
	}
}

func (C20) Gen(r *simrt.RNG, tier string) core.Case {
	c := C20Case{}
	switch r.Intn(8) {
	case 0, 1, 2:
		c.Mode = "dfs"
		c.Graph = genGraph(r, 10, r.Chance(1, 4), 5, false)
		c.Reverse = r.Chance(1, 2)
		c.Start = r.Intn(c.Graph.N)
		nd := r.Intn(4)
		for i := 0; i < nd; i++ {
			c.Decline = append(c.Decline, r.Intn(c.Graph.N))
		}
	case 3, 4:
		c.Mode = "kahn"
		c.Graph = genGraph(r, 10, r.Chance(2, 3), 5, false)
		if r.Chance(1, 3) && c.Graph.N > 1 { // plant one back edge
			a := 1 + r.Intn(c.Graph.N-1)
			c.Graph.Edges = append(c.Graph.Edges, [3]int{a, r.Intn(a + 1), 1})
		}
	case 5:
		c.Mode = "scc"
		c.Graph = genGraph(r, 10, false, 5, false)
	default:
		c.Mode = "toposp"
		c.Graph = genGraph(r, 10, true, 20, false)
		// single root: every vertex j>0 gets an in-edge from a lower vertex
		m := buildModel(c.Graph)
		for j := 1; j < c.Graph.N; j++ {
			has := false
			for i := 0; i < j; i++ {
				if m.adj[i][j] >= 0 {
					has = true
				}
			}
			if !has {
				c.Graph.Edges = append(c.Graph.Edges, [3]int{r.Intn(j), j, r.Intn(21)})
			}
		}
	}
	if r.Chance(1, 4) { // drawn last: the graphs of earlier versions are unchanged
		for i, n := 0, 1+r.Intn(2); i < n; i++ {
			c.Churn = append(c.Churn, [2]int{r.Intn(c.Graph.N), r.Intn(c.Graph.N)})
		}
	}
	return c
}

func (C20) Decode(raw json.RawMessage) (core.Case, error) {
	var c C20Case
	err := json.Unmarshal(raw, &c)
	return c, err
}

func (C20) Shape(c core.Case, v core.Violation) string { return c.(C20Case).Mode }

func (C20) Shrink(c core.Case) []core.Case {
	cc := c.(C20Case)
	var out []core.Case
	for i := range cc.Decline {
		n := cc
		n.Decline = append(append([]int{}, cc.Decline[:i]...), cc.Decline[i+1:]...)
		out = append(out, n)
	}
	for _, g := range shrinkGraph(cc.Graph) {
		n := cc
		n.Graph = g
		if n.Start >= g.N {
			n.Start = g.N - 1
		}
		n.Decline = nil
		for _, d := range cc.Decline {
			if d < g.N {
				n.Decline = append(n.Decline, d)
			}
		}
		out = append(out, n)
	}
	if cc.Reverse {
		n := cc
		n.Reverse = false
		out = append(out, n)
	}
	for i := range cc.Churn {
		n := cc
		n.Churn = append(append([][2]int{}, cc.Churn[:i]...), cc.Churn[i+1:]...)
		out = append(out, n)
	}
	return out
}

func singleRootedDAG(m *model) bool {
	// acyclic by construction check + exactly one vertex without in-edges, all reachable from it
	r := m.reach()
	for i := 0; i < m.n; i++ {
		if r[i][i] {
			return false
		}
	}
	root := -1
	for j := 0; j < m.n; j++ {
		in := 0
		for i := 0; i < m.n; i++ {
			if m.adj[i][j] >= 0 {
				in++
			}
		}
		if in == 0 {
			if root >= 0 {
				return false
			}
			root = j
		}
	}
	if root < 0 {
		return false
	}
	for j := 0; j < m.n; j++ {
		if j != root && !r[root][j] {
			return false
		}
	}
	return true
}

func (C20) Run(c core.Case, ctx *core.Ctx) []core.Violation {
	cc := c.(C20Case)
	spec := cc.Graph
	mspec := spec
	if cc.Reverse && cc.Mode == "dfs" {
		mspec = GraphSpec{N: spec.N, Kinds: spec.Kinds}
		for _, e := range spec.Edges {
			mspec.Edges = append(mspec.Edges, [3]int{e[1], e[0], e[2]})
		}
	}
	m := buildModel(mspec)
	reach := m.reach()
	sh := shapeHash(mspec)*131 + uint64(len(cc.Mode))*7 + uint64(cc.Start)
	for _, d := range cc.Decline {
		sh = sh*31 + uint64(d)
	}
	nedges := 0
	for i := range m.adj {
		for j := range m.adj[i] {
			if m.adj[i][j] >= 0 {
				nedges++
			}
		}
	}
	nontrivial := m.n >= 3 && nedges >= 2
	var out []core.Violation
	add := func(class, site, detail string) {
		out = append(out, core.Violation{Class: class, Site: site, Detail: detail})
	}
	for k := 0; k < ctx.NumSchedules(); k++ {
		sim := ctx.Begin(k)
		sim.MaxSteps = 400000
		g, vs := buildGraph(spec)
		for i, ab := range cc.Churn {
			if ab[0] >= spec.N || ab[1] >= spec.N {
				continue
			}
			x := vertexOf(1, spec.N+i, 0)
			g.Add(x)
			g.AddEdge(vs[ab[0]], x)
			g.AddEdge(x, vs[ab[1]])
			g.Remove(x)
			ctx.St.Inc("c20_churned_vertices")
		}
		sim.ResetOp()
		switch cc.Mode {
		case "dfs":
			ctx.St.Inc("c20_dfs_runs")
			sg := g
			if cc.Reverse {
				sg = g.Reverse()
			}
			decl := map[int]bool{}
			for _, d := range cc.Decline {
				decl[d] = true
			}
			// model: vertices reachable from start through descended intermediates
			want := map[int]bool{}
			seen := map[int]bool{cc.Start: true}
			queue := []int{cc.Start}
			for len(queue) > 0 {
				u := queue[0]
				queue = queue[1:]
				for w := 0; w < m.n; w++ {
					if m.adj[u][w] < 0 || w == cc.Start {
						continue
					}
					want[w] = true
					if !seen[w] && !decl[w] {
						seen[w] = true
						queue = append(queue, w)
					}
				}
			}
			reported := map[int]int{}
			var dfsErr error
			if p, class, site, detail := core.Guard(func() {
				// start from a different Go value with the same identity now and then
				start := vs[cc.Start]
				if len(cc.Decline)%2 == 1 {
					start = vertexOf(spec.Kinds[cc.Start], cc.Start, 4242)
					ctx.St.Inc("c20_dfs_started_from_equal_value")
				}
				dfsErr = sg.DFS(start, func(v graphx.Vertex, next func() error) error {
					id := idOf(graphx.VertexID(v))
					reported[id]++
					sim.Event("dfs-report", uint64(id))
					if decl[id] {
						return nil
					}
					return next()
				})
			}); p {
				add(class, site, "DFS: "+detail)
				break
			}
			if dfsErr != nil {
				add("dfs-error", "DFS", dfsErr.Error())
			}
			for w := range want { // order-insensitive: every element checked
				if reported[w] == 0 {
					add("dfs-missed-vertex", "DFS", fmt.Sprintf("start=%d decline=%v: reachable vertex %d not reported", cc.Start, cc.Decline, w))
				}
			}
			for w, n := range reported { // order-insensitive: every element checked
				if !want[w] {
					add("dfs-spurious-vertex", "DFS", fmt.Sprintf("start=%d decline=%v: vertex %d reported but not reachable", cc.Start, cc.Decline, w))
				} else if !decl[w] && n != 1 {
					add("dfs-descended-twice", "DFS", fmt.Sprintf("start=%d decline=%v: vertex %d descended %d times", cc.Start, cc.Decline, w, n))
				}
				if decl[w] {
					ctx.St.Inc("c20_dfs_decliner_reported")
				}
			}
		case "kahn":
			cyclic := false
			for i := 0; i < m.n; i++ {
				if reach[i][i] {
					cyclic = true
				}
			}
			var L graphx.TopoOrder
			p, class, site, detail := core.Guard(func() {
				L = g.KahnSort()
				if spec.N%2 == 1 {
					L = g.KahnSort() // sorting works on a copy: a second sort sees the same graph
				}
			})
			if cyclic {
				if !p {
					add("kahn-accepted-cycle", "KahnSort", fmt.Sprintf("cyclic graph sorted without panic: %v", pathIDs(L)))
				} else if class != "panic:graph-has-cycles" {
					add(class, site, "KahnSort on cyclic graph: "+detail)
				} else {
					ctx.St.Inc("c20_kahn_cyclic_panicked")
				}
				break
			}
			if p {
				add(class, site, "KahnSort on acyclic graph: "+detail)
				break
			}
			ctx.St.Inc("c20_kahn_acyclic")
			pos := map[int]int{}
			for i, v := range L {
				id := idOf(graphx.VertexID(v))
				if _, dup := pos[id]; dup {
					add("kahn-duplicate", "KahnSort", fmt.Sprintf("vertex %d twice in %v", id, pathIDs(L)))
				}
				pos[id] = i
			}
			if len(pos) != m.n || len(L) != m.n {
				add("kahn-not-permutation", "KahnSort", fmt.Sprintf("order %v over %d vertices", pathIDs(L), m.n))
				break
			}
			for i := 0; i < m.n; i++ {
				for j := 0; j < m.n; j++ {
					if m.adj[i][j] >= 0 && pos[i] >= pos[j] {
						add("kahn-edge-backward", "KahnSort", fmt.Sprintf("edge %d->%d backward in %v", i, j, pathIDs(L)))
					}
				}
			}
			// the sort works on a copy: the graph itself must be untouched
			for i := 0; i < m.n; i++ {
				if len(g.OutEdges(vs[i])) != outDegree(m, i) {
					add("kahn-mutated-graph", "KahnSort", fmt.Sprintf("vertex %d lost edges after sorting", i))
				}
				indeg := 0
				for j := 0; j < m.n; j++ {
					if m.adj[j][i] >= 0 {
						indeg++
					}
				}
				if len(g.InEdges(vs[i])) != indeg {
					add("kahn-mutated-graph", "KahnSort", fmt.Sprintf("vertex %d lost incoming edges after sorting", i))
				}
			}
		case "scc":
			var comps [][]graphx.Vertex
			if p, class, site, detail := core.Guard(func() { comps = g.StronglyConnected() }); p {
				add(class, site, "StronglyConnected: "+detail)
				break
			}
			comp := map[int]int{}
			for ci, cvs := range comps {
				if len(cvs) > 1 {
					ctx.St.Inc("c20_scc_multi")
				}
				for _, v := range cvs {
					id := idOf(graphx.VertexID(v))
					if _, dup := comp[id]; dup {
						add("scc-not-partition", "StronglyConnected", fmt.Sprintf("vertex %d in two components", id))
					}
					comp[id] = ci
				}
			}
			if len(comp) != m.n {
				add("scc-not-partition", "StronglyConnected", fmt.Sprintf("%d of %d vertices covered", len(comp), m.n))
				break
			}
			for i := 0; i < m.n; i++ {
				for j := i + 1; j < m.n; j++ {
					mutual := reach[i][j] && reach[j][i]
					if mutual != (comp[i] == comp[j]) {
						add("scc-wrong-classes", "StronglyConnected", fmt.Sprintf("vertices %d,%d mutual=%v same-component=%v", i, j, mutual, comp[i] == comp[j]))
					}
				}
			}
		case "toposp":
			if !singleRootedDAG(m) {
				break
			}
			ctx.St.Inc("c20_toposp_runs")
			var L graphx.TopoOrder
			var distTo, ddist map[interface{}]int
			var edgeTo map[interface{}]graphx.Vertex
			if p, class, site, detail := core.Guard(func() {
				L = g.KahnSort()
				distTo, edgeTo = g.TopoShortestPath(L)
				ddist, _ = g.Dijkstra(L[0])
			}); p {
				add(class, site, "TopoShortestPath: "+detail)
				break
			}
			root := idOf(graphx.VertexID(L[0]))
			fw := m.floyd()
			for v := 0; v < m.n; v++ {
				if v == root {
					continue
				}
				id := graphx.VertexID(vs[v])
				d, ok := distTo[id]
				if !ok || d != ddist[id] || d != fw[root][v] {
					add("toposp-disagrees", "TopoShortestPath", fmt.Sprintf("root=%d v=%d topo=%d(%v) dijkstra=%d model=%d", root, v, d, ok, ddist[id], fw[root][v]))
					continue
				}
				var path []graphx.Vertex
				if p, class, site, detail := core.Guard(func() { path = g.EdgeToPath(vs[v], edgeTo) }); p {
					add(class, site, detail)
					continue
				}
				sum, okp := 0, len(path) > 0 && idOf(graphx.VertexID(path[0])) == root
				for i := 0; okp && i+1 < len(path); i++ {
					a, b := idOf(graphx.VertexID(path[i])), idOf(graphx.VertexID(path[i+1]))
					if m.adj[a][b] < 0 {
						okp = false
						break
					}
					sum += m.adj[a][b]
				}
				if !okp || sum != d {
					add("toposp-bad-path", "TopoShortestPath", fmt.Sprintf("root=%d v=%d path %v sum %d dist %d", root, v, pathIDs(path), sum, d))
				}
			}
		}
		if nontrivial {
			ctx.MarkNontrivial(sh, sim)
		}
		ctx.End(sim)
	}
	sort.SliceStable(out, func(i, j int) bool { return out[i].Class+out[i].Detail < out[j].Class+out[j].Detail })
	return out
}

func outDegree(m *model, i int) int {
	n := 0
	for j := range m.adj[i] {
		if m.adj[i][j] >= 0 {
			n++
		}
	}
	return n
}
