// Package gprops holds the properties of internal/graph (C18, C19, C20). They
// drive the real graph code through the woven alias shim; the only seam on
// their path is S1 (map iteration order) plus the S4 step budget.
package gprops

import (
	"fmt"

	"github.com/hashicorp/go-argmapper/verifshim/graphx"
	"verif.local/simrt"
)

// GraphSpec is a small weighted digraph as explicit data.
type GraphSpec struct {
	N     int      `json:"n"`
	Kinds []int    `json:"kinds"` // per vertex: 0 int, 1 string, 2 hashable wrapper
	Edges [][3]int `json:"edges"` // from, to, weight; later entries overwrite earlier
}

// hv is a vertex with an explicit hash code: distinct Go values with the same
// code are the same vertex to the graph.
type hv struct {
	Code     int
	Gen      int
	SameName bool // all such vertices print alike: identity is the hash code, not the name
}

func (h *hv) Hashcode() interface{} { return fmt.Sprintf("h%03d", h.Code) }
func (h *hv) String() string {
	if h.SameName {
		return "hv"
	}
	return fmt.Sprintf("hv(%d#%d)", h.Code, h.Gen)
}

// sv is a vertex of a type that is not comparable in Go (a slice); it takes its
// identity from its hash code alone ("a vertex can be anything").
type sv []int

func (s sv) Hashcode() interface{} { return fmt.Sprintf("h%03d", s[0]) }
func (s sv) String() string        { return fmt.Sprintf("sv(%d#%d)", s[0], s[1]) }

func vertexOf(kind, i, gen int) graphx.Vertex {
	switch kind {
	case 1:
		return fmt.Sprintf("s%03d", i)
	case 2:
		return &hv{Code: i, Gen: gen}
	case 3:
		return sv{i, gen}
	case 4:
		return &hv{Code: i, Gen: gen, SameName: true}
	}
	return i
}

// idOf maps a vertex (or hash code) back to its index.
func idOf(v interface{}) int {
	switch x := v.(type) {
	case int:
		return x
	case string:
		var i int
		if len(x) > 1 && x[0] == 's' {
			fmt.Sscanf(x[1:], "%d", &i)
			return i
		}
		if len(x) > 1 && x[0] == 'h' {
			fmt.Sscanf(x[1:], "%d", &i)
			return i
		}
	case *hv:
		return x.Code
	case sv:
		return x[0]
	}
	return -1
}

func genGraph(r *simrt.RNG, maxN int, dag bool, maxW int, allowSlice bool) GraphSpec {
	n := 1 + r.Intn(maxN)
	// now and then legal but very large weights: up to 2^29 on graphs of <= 4
	// vertices, so that every path sum stays below 2^31
	huge := maxW >= 20 && r.Chance(1, 10)
	if huge && n > 4 {
		n = 2 + r.Intn(3)
	}
	g := GraphSpec{N: n}
	kindMode := r.Intn(4)                      // 0 all int, 1 all string, 2 all hashable, 3 mixed
	sliceVerts := allowSlice && r.Chance(1, 6) // hashable vertices of a non-comparable Go type
	for i := 0; i < n; i++ {
		k := kindMode
		if kindMode == 3 {
			k = r.Intn(3)
		}
		if sliceVerts && k == 2 {
			k = 3
		}
		g.Kinds = append(g.Kinds, k)
	}
	density := 1 + r.Intn(6) // out of 8
	wmode := r.Intn(4)       // 0: all zero/one, 1: small range with ties, 2: wide, 3: many zeros
	for i := 0; i < n; i++ {
		for j := 0; j < n; j++ {
			if dag && j <= i {
				continue
			}
			if i == j && !r.Chance(1, 6) {
				continue
			}
			if !r.Chance(density, 8) {
				continue
			}
			w := 0
			switch wmode {
			case 0:
				w = r.Intn(2)
			case 1:
				w = 1 + r.Intn(3)
			case 2:
				w = r.Intn(maxW + 1)
			case 3:
				if r.Chance(1, 2) {
					w = r.Intn(maxW + 1)
				}
			}
			if huge && r.Chance(2, 3) {
				w = 1<<28 + r.Intn(1<<28)
			}
			g.Edges = append(g.Edges, [3]int{i, j, w})
		}
	}
	// shuffle edge insertion order (it must not matter)
	for i := len(g.Edges) - 1; i > 0; i-- {
		j := r.Intn(i + 1)
		g.Edges[i], g.Edges[j] = g.Edges[j], g.Edges[i]
	}
	return g
}

const inf = 1 << 40

// model: adjacency matrix with weights (-1 = no edge)
type model struct {
	n   int
	adj [][]int
}

func buildModel(s GraphSpec) *model {
	m := &model{n: s.N, adj: make([][]int, s.N)}
	for i := range m.adj {
		m.adj[i] = make([]int, s.N)
		for j := range m.adj[i] {
			m.adj[i][j] = -1
		}
	}
	for _, e := range s.Edges {
		m.adj[e[0]][e[1]] = e[2]
	}
	return m
}

// floyd returns all-pairs shortest distances (inf = unreachable); dist[i][i]=0.
func (m *model) floyd() [][]int {
	d := make([][]int, m.n)
	for i := range d {
		d[i] = make([]int, m.n)
		for j := range d[i] {
			switch {
			case i == j:
				d[i][j] = 0
			case m.adj[i][j] >= 0:
				d[i][j] = m.adj[i][j]
			default:
				d[i][j] = inf
			}
		}
	}
	for k := 0; k < m.n; k++ {
		for i := 0; i < m.n; i++ {
			for j := 0; j < m.n; j++ {
				if d[i][k]+d[k][j] < d[i][j] {
					d[i][j] = d[i][k] + d[k][j]
				}
			}
		}
	}
	return d
}

// reach returns the strict transitive closure: r[i][j] iff a path of >=1 edge i->j.
func (m *model) reach() [][]bool {
	r := make([][]bool, m.n)
	for i := range r {
		r[i] = make([]bool, m.n)
		for j := range r[i] {
			r[i][j] = m.adj[i][j] >= 0
		}
	}
	for k := 0; k < m.n; k++ {
		for i := 0; i < m.n; i++ {
			if !r[i][k] {
				continue
			}
			for j := 0; j < m.n; j++ {
				if r[k][j] {
					r[i][j] = true
				}
			}
		}
	}
	return r
}

func buildGraph(s GraphSpec) (*graphx.Graph, []graphx.Vertex) {
	var g graphx.Graph
	vs := make([]graphx.Vertex, s.N)
	for i := 0; i < s.N; i++ {
		vs[i] = vertexOf(s.Kinds[i], i, 0)
		g.Add(vs[i])
	}
	for _, e := range s.Edges {
		g.AddEdgeWeighted(vs[e[0]], vs[e[1]], e[2])
	}
	return &g, vs
}

func shapeHash(s GraphSpec) uint64 {
	h := uint64(1469598103934665603)
	mix := func(x int) { h = (h ^ uint64(x+7)) * 1099511628211 }
	mix(s.N)
	for _, k := range s.Kinds {
		mix(k)
	}
	m := buildModel(s)
	for i := range m.adj {
		for j := range m.adj[i] {
			mix(m.adj[i][j])
		}
	}
	return h
}

// shrinkGraph proposes smaller graphs: drop a vertex, drop an edge, lower a
// weight, simplify vertex kinds.
func shrinkGraph(s GraphSpec) []GraphSpec {
	var out []GraphSpec
	for v := s.N - 1; v >= 0 && s.N > 1; v-- {
		c := GraphSpec{N: s.N - 1}
		for i, k := range s.Kinds {
			if i != v {
				c.Kinds = append(c.Kinds, k)
			}
		}
		for _, e := range s.Edges {
			if e[0] == v || e[1] == v {
				continue
			}
			ne := e
			if ne[0] > v {
				ne[0]--
			}
			if ne[1] > v {
				ne[1]--
			}
			c.Edges = append(c.Edges, ne)
		}
		out = append(out, c)
	}
	for i := range s.Edges {
		c := GraphSpec{N: s.N, Kinds: s.Kinds}
		c.Edges = append(append([][3]int{}, s.Edges[:i]...), s.Edges[i+1:]...)
		out = append(out, c)
	}
	for i, e := range s.Edges {
		if e[2] > 0 {
			c := GraphSpec{N: s.N, Kinds: s.Kinds, Edges: append([][3]int{}, s.Edges...)}
			c.Edges[i][2] = e[2] / 2
			out = append(out, c)
		}
	}
	allInt := true
	for _, k := range s.Kinds {
		if k != 0 {
			allInt = false
		}
	}
	if !allInt {
		c := GraphSpec{N: s.N, Kinds: make([]int, s.N), Edges: s.Edges}
		out = append(out, c)
	}
	return out
}
