package gprops

import (
	"encoding/json"
	"fmt"

	"github.com/hashicorp/go-argmapper/verifshim/graphx"
	"verif.local/harness/core"
	"verif.local/simrt"
)

// C18: Dijkstra under seeded iteration orders vs. Floyd-Warshall.

type C18Case struct {
	Graph   GraphSpec `json:"graph"`
	Sources []int     `json:"sources"`
	Reverse bool      `json:"reverse"` // search the reversed view, as the resolver does
}

type C18 struct{}

func (C18) ID() string { return "C18" }

func (C18) Plan(tier string) core.Plan {
	if tier == "thorough" {
		return core.Plan{Cases: 400000, Schedules: 16}
	}
	return core.Plan{Cases: 40000, Schedules: 6}
}

func (C18) Info() core.Info {
	return core.Info{
		Rule: "random weighted digraphs (1-12 vertices; int, string and hash-code vertices; weights 0-20 with zero/tie-heavy modes, now and then legal but very large weights (2^28..2^29 on graphs of <= 4 vertices, so path sums stay below 2^31); some hash-code vertices are of a non-comparable Go type (a slice); cycles, self-loops, unreachable parts), searched from up to 3 sources on the graph or its reversed view, each under several seeded map-iteration schedules (canonical, reverse, rotate, uniform, mixed, adversarial single site); compared with Floyd-Warshall. A (graph,source,schedule) triple is non-trivial when the source reaches >=2 other vertices; distinct = distinct (graph shape, event-log hash) pairs",
		Assumptions: []string{
			"weights are non-negative and small enough not to overflow int32 (as the statement requires non-negative weights)",
			"the woven copy behaves as the shipped code: checked by running the repository's own tests on the woven copy in every check",
		},
		Probes:    []string{"c18_reachable_checked", "c18_unreachable_checked", "c18_tie_graphs", "c18_reversed", "c18_huge_weights", "c18_slice_vertices", "s1_nonidentity_perms"},
		Real:      []string{"internal/graph (woven copy): Graph.Add/AddEdgeWeighted/Reverse/Dijkstra/EdgeToPath, container/heap"},
		Simulated: []string{"map iteration order at every range site (S1)", "step budget for path reconstruction (S4)"},
	}
}

func (C18) Gen(r *simrt.RNG, tier string) core.Case {
	c := C18Case{Graph: genGraph(r, 12, false, 20, true), Reverse: r.Chance(1, 2)}
	ns := 1 + r.Intn(3)
	for i := 0; i < ns; i++ {
		c.Sources = append(c.Sources, r.Intn(c.Graph.N))
	}
	return c
}

func (C18) Decode(raw json.RawMessage) (core.Case, error) {
	var c C18Case
	err := json.Unmarshal(raw, &c)
	return c, err
}

func (C18) Shape(c core.Case, v core.Violation) string { return "any" }

func (C18) Shrink(c core.Case) []core.Case {
	cc := c.(C18Case)
	var out []core.Case
	if len(cc.Sources) > 1 {
		for _, s := range cc.Sources {
			out = append(out, C18Case{Graph: cc.Graph, Sources: []int{s}, Reverse: cc.Reverse})
		}
	}
	for _, g := range shrinkGraph(cc.Graph) {
		n := C18Case{Graph: g, Reverse: cc.Reverse}
		for _, s := range cc.Sources {
			if s < g.N {
				n.Sources = append(n.Sources, s)
			} else {
				n.Sources = append(n.Sources, g.N-1)
			}
		}
		out = append(out, n)
	}
	if cc.Reverse {
		out = append(out, C18Case{Graph: cc.Graph, Sources: cc.Sources, Reverse: false})
	}
	return out
}

func (C18) Run(c core.Case, ctx *core.Ctx) []core.Violation {
	cc := c.(C18Case)
	spec := cc.Graph
	mspec := spec
	if cc.Reverse {
		mspec = GraphSpec{N: spec.N, Kinds: spec.Kinds}
		for _, e := range spec.Edges {
			mspec.Edges = append(mspec.Edges, [3]int{e[1], e[0], e[2]})
		}
	}
	m := buildModel(mspec)
	fw := m.floyd()
	sh := shapeHash(mspec)
	var out []core.Violation
	add := func(class, site, detail string) {
		out = append(out, core.Violation{Class: class, Site: site, Detail: detail})
	}
	// tie probe: some vertex has two different shortest predecessor choices
	ties := false
	for s := 0; s < m.n && !ties; s++ {
		for v := 0; v < m.n && !ties; v++ {
			if v == s || fw[s][v] >= inf {
				continue
			}
			cnt := 0
			for u := 0; u < m.n; u++ {
				if m.adj[u][v] >= 0 && fw[s][u] < inf && fw[s][u]+m.adj[u][v] == fw[s][v] {
					cnt++
				}
			}
			if cnt > 1 {
				ties = true
			}
		}
	}
	for k := 0; k < ctx.NumSchedules(); k++ {
		sim := ctx.Begin(k)
		sim.MaxSteps = 300000
		g, vs := buildGraph(spec)
		sg := g
		if cc.Reverse {
			sg = g.Reverse()
			ctx.St.Inc("c18_reversed")
		}
		if ties {
			ctx.St.Inc("c18_tie_graphs")
		}
		for _, e := range spec.Edges {
			if e[2] >= 1<<26 {
				ctx.St.Inc("c18_huge_weights")
				break
			}
		}
		for _, kd := range spec.Kinds {
			if kd == 3 {
				ctx.St.Inc("c18_slice_vertices")
				break
			}
		}
		for _, src := range cc.Sources {
			sim.ResetOp()
			var distTo map[interface{}]int
			var edgeTo map[interface{}]graphx.Vertex
			if p, class, site, detail := core.Guard(func() { distTo, edgeTo = sg.Dijkstra(vs[src]) }); p {
				add(class, site, fmt.Sprintf("Dijkstra(src=%d): %s", src, detail))
				continue
			}
			sim.Event("dijkstra", uint64(src))
			reached := 0
			for v := 0; v < m.n; v++ {
				id := graphx.VertexID(vs[v])
				var path []graphx.Vertex
				if p, class, site, detail := core.Guard(func() { path = sg.EdgeToPath(vs[v], edgeTo) }); p {
					add(class, site, fmt.Sprintf("EdgeToPath(target=%d,src=%d): %s", v, src, detail))
					continue
				}
				if fw[src][v] < inf {
					ctx.St.Inc("c18_reachable_checked")
					if v != src {
						reached++
					}
					d, ok := distTo[id]
					if !ok {
						add("missing-distance", "Dijkstra", fmt.Sprintf("src=%d v=%d has no distance entry", src, v))
						continue
					}
					if d != fw[src][v] {
						add("wrong-distance", "Dijkstra", fmt.Sprintf("src=%d v=%d got %d want %d", src, v, d, fw[src][v]))
						continue
					}
					// the path must be real and sum to the distance
					if len(path) == 0 || idOf(graphx.VertexID(path[0])) != src || idOf(graphx.VertexID(path[len(path)-1])) != v {
						add("bad-path", "EdgeToPath", fmt.Sprintf("src=%d v=%d path endpoints wrong: %v", src, v, pathIDs(path)))
						continue
					}
					sum, okp := 0, true
					for i := 0; i+1 < len(path); i++ {
						a, b := idOf(graphx.VertexID(path[i])), idOf(graphx.VertexID(path[i+1]))
						if a < 0 || b < 0 || m.adj[a][b] < 0 {
							okp = false
							break
						}
						sum += m.adj[a][b]
					}
					if !okp {
						add("bad-path", "EdgeToPath", fmt.Sprintf("src=%d v=%d path uses a non-edge: %v", src, v, pathIDs(path)))
					} else if sum != d {
						add("bad-path", "EdgeToPath", fmt.Sprintf("src=%d v=%d path weight %d != distance %d: %v", src, v, sum, d, pathIDs(path)))
					}
				} else {
					ctx.St.Inc("c18_unreachable_checked")
					for i, pv := range path {
						if i == len(path)-1 {
							break // the target itself
						}
						if idOf(graphx.VertexID(pv)) == src {
							add("unreachable-chain-reaches-source", "Dijkstra", fmt.Sprintf("src=%d unreachable v=%d chain %v", src, v, pathIDs(path)))
							break
						}
					}
				}
			}
			if reached >= 2 {
				ctx.MarkNontrivial(sh*31+uint64(src), sim)
			}
		}
		ctx.End(sim)
	}
	return out
}

func pathIDs(p []graphx.Vertex) []int {
	out := make([]int, len(p))
	for i, v := range p {
		out[i] = idOf(graphx.VertexID(v))
	}
	return out
}
