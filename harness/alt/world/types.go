// Package world (import path .../alt/world) declares twins of two pool types:
// distinct Go types whose reflect.Type.String() equals that of the pool's
// "world.T0" and "world.T1". A cache or vertex identity keyed by the printed
// type name cannot tell them apart. They are only ever used in operations that
// do not mention their namesakes.
package world

type T0 struct{ ID uint64 }
type T1 struct{ ID uint64 }
