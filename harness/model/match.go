// Package model is the small executable reference model of go-argmapper's
// resolution: two matching tables (PERMIT: the loosest reading the properties
// allow, used for safety; EXPECT: what the documentation certainly promises,
// used for liveness) and least fixpoints of derivable labels over a world.
package model

import (
	"verif.local/harness/world"
)

type Label = world.Label

// Permit: see world.Permit (transcribed from the statement of C01).
func Permit(s, p Label) bool { return world.Permit(s, p) }

// Expect is a deliberately strict subset of Permit: bindings that the README,
// the Func/Struct documentation and the behaviours pinned by the existing tests
// certainly promise.
func Expect(s, p Label) bool {
	if p.Name != "" {
		if s.Name == p.Name && s.Type == p.Type && s.Sub == p.Sub {
			return true
		}
		if p.Sub != "" {
			return false
		}
		if s.Name == p.Name && s.Type == p.Type {
			return true // named, same name, any subtype ("subtype named not specified")
		}
		if s.Name == p.Name && world.IsIface(p.Type) && world.Implements(s.Type, p.Type) {
			return true // Named: "the name matches AND the value is assignable"
		}
		if s.Name == "" && s.Sub == "" {
			if s.Type == p.Type {
				return true // typed fallback for a named parameter (README, Prefix)
			}
			if world.IsIface(p.Type) && world.Implements(s.Type, p.Type) {
				return true // interface implementation
			}
		}
		return false
	}
	// type-only parameter
	if s.Type == p.Type && s.Sub == p.Sub {
		return true
	}
	if p.Sub != "" {
		return false
	}
	if s.Type == p.Type {
		return true // any subtype when the parameter does not specify one
	}
	if s.Name == "" && world.IsIface(p.Type) && world.Implements(s.Type, p.Type) && s.Sub == "" {
		return true
	}
	return false
}

type Table func(s, p Label) bool

// View is what an operation can draw on: supplied labels and converter parties.
type View struct {
	Supplied   []Label
	SupArgs    []int // arg index of each supplied label
	Convs      []int // party indices registered directly
	GenParties []int // party indices offered through generators (any subtype variant)
	HasGen     bool
	HasNilOpt  bool
	HasBadConv bool // a non-function converter option
	FilterIn   *world.ArgSpec
	FilterOut  *world.ArgSpec
}

// ViewOf collects what operation op of w supplies (its options after the
// defaults of its target; for a call of a redefined function the options of
// the Redefine).
func ViewOf(w *world.World, op int) View {
	var v View
	o := w.Ops[op]
	var list []int
	switch o.Kind {
	case world.OpCall, world.OpRedefine:
		list = append(list, w.Parties[o.Target].Defaults...)
		list = append(list, o.Args...)
	case world.OpConvert:
		list = append(list, o.Args...)
	case world.OpCallRedef:
		ro := w.Ops[o.Redef]
		list = append(list, w.Parties[ro.Target].Defaults...)
		list = append(list, ro.Args...)
	}
	type key struct {
		named bool
		name  string
		t     int
		sub   string
	}
	last := map[key]int{}
	var expanded []int
	for _, ai := range list {
		if w.Args[ai].Kind == world.ArgTypedMulti {
			expanded = append(expanded, w.Args[ai].Multi...)
			continue
		}
		expanded = append(expanded, ai)
	}
	for _, ai := range expanded {
		a := w.Args[ai]
		switch a.Kind {
		case world.ArgNamed, world.ArgTyped:
			k := key{a.Kind == world.ArgNamed, a.Label.Name, a.Label.Type, a.Label.Sub}
			if a.Kind == world.ArgNamed {
				// named values are keyed by name (and subtype), whatever their type
				k.t = -1
			}
			if i, dup := last[k]; dup {
				v.Supplied[i] = a.Label
				v.SupArgs[i] = ai
				continue
			}
			last[k] = len(v.Supplied)
			v.Supplied = append(v.Supplied, a.Label)
			v.SupArgs = append(v.SupArgs, ai)
		case world.ArgConv, world.ArgConvFunc:
			v.Convs = append(v.Convs, a.Party)
		case world.ArgGen:
			v.HasGen = true
			v.GenParties = append(v.GenParties, a.Gen.Party)
		case world.ArgNilOpt:
			v.HasNilOpt = true
		case world.ArgNonFunc, world.ArgNilConv:
			v.HasBadConv = true
		case world.ArgFilterIn:
			aa := a
			v.FilterIn = &aa
		case world.ArgFilterOut:
			aa := a
			v.FilterOut = &aa
		}
	}
	return v
}

// Has reports whether some available label matches parameter p under tab.
func Has(avail []Label, p Label, tab Table) bool {
	for _, s := range avail {
		if tab(s, p) {
			return true
		}
	}
	return false
}

// LFP computes the least fixpoint of labels derivable from the supplied ones
// through the converters of the view, a converter firing when each of its
// inputs has a match under tab. withGen adds generator-offered parties (with
// every subtype variant of their first output): used for upper bounds only.
func LFP(w *world.World, v View, tab Table, withGen bool) (avail []Label, fired map[int]bool) {
	avail = append(avail, v.Supplied...)
	fired = map[int]bool{}
	convs := append([]int(nil), v.Convs...)
	if withGen {
		convs = append(convs, v.GenParties...)
	}
	for changed := true; changed; {
		changed = false
		for _, pi := range convs {
			if fired[pi] {
				continue
			}
			p := w.Parties[pi]
			ok := true
			for _, s := range p.In {
				if !Has(avail, s.Label, tab) {
					ok = false
					break
				}
			}
			if !ok {
				continue
			}
			fired[pi] = true
			changed = true
			for oi, s := range p.Out {
				if !withGen && s.Name == "" {
					// lower bound: a result list with two type-only fields of one type is
					// outside "well-formed use" (the type is the field key; only one of them
					// is registered), so neither is promised
					dup := false
					for oj, o := range p.Out {
						if oj != oi && o.Name == "" && o.Type == s.Type {
							dup = true
						}
					}
					if dup {
						continue
					}
				}
				avail = append(avail, s.Label)
				if withGen {
					for _, sub := range world.Subs {
						l := s.Label
						l.Sub = sub
						avail = append(avail, l)
					}
				}
			}
		}
	}
	return
}

// Missing lists the parameters of party t that have no match among avail.
func Missing(w *world.World, t int, avail []Label, tab Table) []int {
	var out []int
	for i, s := range w.Parties[t].In {
		if !Has(avail, s.Label, tab) {
			out = append(out, i)
		}
	}
	return out
}
