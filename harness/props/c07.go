package props

import (
	"encoding/json"
	"fmt"

	"verif.local/harness/core"
	"verif.local/harness/model"
	"verif.local/harness/world"
	"verif.local/simrt"
)

// C07: name affinity decides between equal candidates.
type C07 struct{}

func (C07) ID() string { return "C07" }

func (C07) Plan(tier string) core.Plan {
	if tier == "thorough" {
		return core.Plan{Cases: 400000, Schedules: 48}
	}
	return core.Plan{Cases: 40000, Schedules: 12}
}

func (C07) Info() core.Info {
	return core.Info{
		Rule:        "shape A: target parameter (n,T1), sometimes further named T1 parameters; 2-5 supplied named T0 values (sometimes all carrying one subtype label) among which each such parameter has a namesake; one converter with exactly one type-only input (T0) producing T1, sometimes with further inputs that are given directly by name, in positional / struct / pointer-struct / built form; shape B: supplied (n,T0); one converter that takes (n,T0) explicitly and one type-only T0->T1 converter; both with 0-4 unrelated distractors, every registration order, random casing of names, additional target parameters, sometimes another converter that also consumes T0, sometimes an earlier call of the same Func without the decisive option. Each world under 12-48 seeded iteration-order schedules. Oracle A: the converter received the token supplied as n and the target received that execution's product. Oracle B: the name-using converter is in the log, the type-only one is not; type-only struct fields are sometimes tagged name,typeOnly with a competing value's name. Non-trivial: always (the competing candidates are the shape); distinct = distinct (world shape, event-log hash)",
		Assumptions: []string{"the statement covers a single conversion step; chains are not asserted"},
		Probes:      []string{"c07_shape_a", "c07_shape_b", "c07_a_ge3_candidates", "c07_a_multi_param", "c07_a_subtyped_candidates", "c07_after_earlier_call", "c07_a_converter_with_named_flags", "c07_b_converter_with_named_flags", "c07_mixed_case_names", "s1_nonidentity_perms"},
		Real:        realComponents,
		Simulated:   simComponents,
	}
}

func (C07) Gen(r *simrt.RNG, tier string) core.Case {
	perm := []int{0, 1, 2, 3, 4, 5, 6, 7, 8, 9, 10, 11}
	for i := len(perm) - 1; i > 0; i-- {
		j := r.Intn(i + 1)
		perm[i], perm[j] = perm[j], perm[i]
	}
	T0, T1 := perm[0], perm[1]
	names := append([]string{}, world.Names...)
	for i := len(names) - 1; i > 0; i-- {
		j := r.Intn(i + 1)
		names[i], names[j] = names[j], names[i]
	}
	n := names[0]
	var w world.World
	tform := world.FormStruct
	if r.Chance(1, 4) {
		tform = world.FormPtrStruct
	}
	t := world.Party{InForm: tform, OutForm: world.FormPositional, In: []world.Slot{{Label: world.Label{Name: n, Type: T1}, Spell: r.Intn(3)}}, HasErr: r.Bool()}
	w.Parties = append(w.Parties, t)
	var args []int
	addArg := func(a world.ArgSpec) { w.Args = append(w.Args, a); args = append(args, len(w.Args)-1) }
	spell := func(s string) string { return world.RandomCase(r, s) }
	convForm := func() (int, int) {
		switch r.Intn(5) {
		case 0:
			return world.FormStruct, world.FormPositional
		case 1:
			return world.FormPtrStruct, world.FormStruct
		case 2:
			return world.FormBuilt, world.FormBuilt
		case 3:
			return world.FormPositional, world.FormStruct
		}
		return world.FormPositional, world.FormPositional
	}
	shapeA := r.Bool()
	if shapeA {
		w.Note = "A"
		k := 2 + r.Intn(4)
		// the competing values may all carry a subtype label (the parameter has none)
		sub := ""
		if r.Chance(1, 4) {
			sub = world.Subs[r.Intn(2)]
		}
		for i := 0; i < k; i++ {
			addArg(world.ArgSpec{Kind: world.ArgNamed, Label: world.Label{Name: names[i], Type: T0, Sub: sub}, Spell: spell(names[i])})
		}
		// further named parameters of the same type, each to be converted from its own namesake
		extra := 0
		if r.Chance(1, 3) {
			extra = 1 + r.Intn(k-1)
		}
		for i := 1; i <= extra; i++ {
			w.Parties[0].In = append(w.Parties[0].In, world.Slot{Label: world.Label{Name: names[i], Type: T1}, Spell: r.Intn(3)})
		}
		inF, outF := convForm()
		c := world.Party{InForm: inF, OutForm: outF, In: []world.Slot{{Label: world.Label{Type: T0}, Spell: r.Intn(12)}}, Out: []world.Slot{{Label: world.Label{Type: T1}}}, HasErr: inF == world.FormBuilt || r.Bool()}
		// further inputs of the converter, given directly by name ("flags")
		if inF != world.FormPositional && r.Chance(1, 3) {
			nf := 1 + r.Intn(2)
			for i := 0; i < nf; i++ {
				fl := world.Label{Name: []string{"x", "y"}[i], Type: perm[7+i]}
				pos := r.Intn(len(c.In) + 1)
				in := append([]world.Slot{}, c.In[:pos]...)
				in = append(in, world.Slot{Label: fl})
				c.In = append(in, c.In[pos:]...)
				addArg(world.ArgSpec{Kind: world.ArgNamed, Label: fl, Spell: fl.Name})
			}
		}
		w.Parties = append(w.Parties, c)
		kind := world.ArgConv
		if inF == world.FormBuilt || r.Bool() {
			kind = world.ArgConvFunc
		}
		addArg(world.ArgSpec{Kind: kind, Party: 1})
		// a further value of the competing type, given by type only
		if sub == "" && r.Chance(1, 5) {
			addArg(world.ArgSpec{Kind: world.ArgTyped, Label: world.Label{Type: T0}})
		}
	} else {
		w.Note = "B"
		addArg(world.ArgSpec{Kind: world.ArgNamed, Label: world.Label{Name: n, Type: T0}, Spell: spell(n)})
		// the name-using converter
		nf := world.FormStruct
		if r.Chance(1, 3) {
			nf = world.FormPtrStruct
		}
		of := world.FormPositional
		if r.Bool() {
			of = world.FormStruct
		}
		c1 := world.Party{InForm: nf, OutForm: of, In: []world.Slot{{Label: world.Label{Name: n, Type: T0}, Spell: r.Intn(3)}}, Out: []world.Slot{{Label: world.Label{Type: T1}}}, HasErr: r.Bool()}
		if r.Chance(1, 4) {
			c1.InForm, c1.OutForm, c1.HasErr = world.FormBuilt, world.FormBuilt, true
		}
		inF, outF := convForm()
		c2 := world.Party{InForm: inF, OutForm: outF, In: []world.Slot{{Label: world.Label{Type: T0}, Spell: r.Intn(12)}}, Out: []world.Slot{{Label: world.Label{Type: T1}}}, HasErr: inF == world.FormBuilt || r.Bool()}
		// further inputs given directly by name ("flags") on either converter
		for ci, cc := range []*world.Party{&c1, &c2} {
			if cc.InForm != world.FormPositional && cc.InForm != world.FormBuilt && r.Chance(1, 4) {
				fl := world.Label{Name: []string{"x", "y"}[ci], Type: perm[7+ci]}
				cc.In = append(cc.In, world.Slot{Label: fl})
				addArg(world.ArgSpec{Kind: world.ArgNamed, Label: fl, Spell: fl.Name})
			}
		}
		// a wide name-using converter: many further inputs, all given directly. The
		// number of inputs a converter has is no reason to pass it over.
		if c1.InForm != world.FormBuilt && r.Chance(1, 6) {
			nw := 4 + r.Intn(4)
			for i := 0; i < nw; i++ {
				fl := world.Label{Name: fmt.Sprintf("f%d", i), Type: perm[8]}
				c1.In = append(c1.In, world.Slot{Label: fl})
				addArg(world.ArgSpec{Kind: world.ArgNamed, Label: fl, Spell: fl.Name})
			}
		}
		w.Parties = append(w.Parties, c1, c2)
		for pi := 1; pi <= 2; pi++ {
			kind := world.ArgConv
			if w.Parties[pi].InForm == world.FormBuilt || r.Bool() {
				kind = world.ArgConvFunc
			}
			addArg(world.ArgSpec{Kind: kind, Party: pi})
		}
	}
	// another converter that also takes T0 (into an unrelated type)
	if r.Chance(1, 3) {
		w.Parties = append(w.Parties, world.Party{InForm: world.FormPositional, OutForm: world.FormPositional, In: []world.Slot{{Label: world.Label{Type: T0}}}, Out: []world.Slot{{Label: world.Label{Type: perm[10]}}}, HasErr: r.Bool()})
		addArg(world.ArgSpec{Kind: world.ArgConvFunc, Party: len(w.Parties) - 1})
	}
	// unrelated distractors: other types only
	nd := r.Intn(5)
	for i := 0; i < nd; i++ {
		x, y := perm[2+r.Intn(6)], perm[2+r.Intn(6)]
		switch r.Intn(3) {
		case 0:
			addArg(world.ArgSpec{Kind: world.ArgTyped, Label: world.Label{Type: x}})
		case 1:
			addArg(world.ArgSpec{Kind: world.ArgNamed, Label: world.Label{Name: names[r.Intn(len(names))], Type: x}, Spell: names[0]})
			w.Args[len(w.Args)-1].Spell = w.Args[len(w.Args)-1].Label.Name
		case 2:
			if x != y {
				w.Parties = append(w.Parties, world.Party{InForm: world.FormPositional, OutForm: world.FormPositional, In: []world.Slot{{Label: world.Label{Type: x}}}, Out: []world.Slot{{Label: world.Label{Type: y}}}})
				addArg(world.ArgSpec{Kind: world.ArgConv, Party: len(w.Parties) - 1})
			}
		}
	}
	// an extra, directly satisfied target parameter now and then
	if r.Chance(1, 3) {
		x := perm[9]
		w.Parties[0].In = append(w.Parties[0].In, world.Slot{Label: world.Label{Name: names[5], Type: x}})
		addArg(world.ArgSpec{Kind: world.ArgNamed, Label: world.Label{Name: names[5], Type: x}, Spell: names[5]})
	}
	for i := len(args) - 1; i > 0; i-- {
		j := r.Intn(i + 1)
		args[i], args[j] = args[j], args[i]
	}
	w.Ops = []world.Op{{Kind: world.OpCall, Target: 0, Args: args}}
	// history: the same Func first called without the decisive option (the namesake
	// in shape A, the name-using converter in shape B); the judged call comes last
	if r.Chance(1, 4) {
		var early []int
		dropped := false
		for _, ai := range args {
			a := w.Args[ai]
			if !dropped && ((shapeA && a.Kind == world.ArgNamed && a.Label.Name == n && a.Label.Type == T0) || (!shapeA && (a.Kind == world.ArgConv || a.Kind == world.ArgConvFunc) && a.Party == 1)) {
				dropped = true
				continue
			}
			early = append(early, ai)
		}
		if dropped {
			w.Ops = []world.Op{{Kind: world.OpCall, Target: 0, Args: early}, {Kind: world.OpCall, Target: 0, Args: args}}
		}
	}
	return RCase{W: w}
}

// c07Shape recognises shape A or B structurally (so shrunk worlds are re-validated).
func c07Shape(w world.World) (shape string, n string, T0, T1 int, conv, nameConv int) {
	if len(w.Ops) == 0 || len(w.Ops) > 2 || len(w.Faults) != 0 || len(w.Parties) < 2 {
		return
	}
	for _, o := range w.Ops {
		if o.Kind != world.OpCall || o.Target != w.Ops[0].Target {
			return
		}
	}
	last := len(w.Ops) - 1
	t := w.Parties[w.Ops[last].Target]
	if len(t.In) == 0 || t.In[0].Name == "" || t.In[0].Sub != "" || len(t.Defaults) != 0 {
		return
	}
	n, T1 = t.In[0].Name, t.In[0].Type
	used := map[int]bool{}
	for _, a := range w.Ops[last].Args {
		used[a] = true
	}
	// converters producing T1
	var prod []int
	for ai, a := range w.Args {
		if !used[ai] {
			continue
		}
		switch a.Kind {
		case world.ArgConv, world.ArgConvFunc:
			for _, o := range w.Parties[a.Party].Out {
				if o.Type == T1 {
					prod = append(prod, a.Party)
				}
			}
		case world.ArgNamed, world.ArgTyped:
			if a.Label.Type == T1 {
				return "", "", 0, 0, 0, 0 // a direct candidate: not this shape
			}
		default:
			return "", "", 0, 0, 0, 0
		}
	}
	// exactly one type-only input (no subtype); any further inputs are named
	// and exactly supplied (checked below); one type-only output
	typeOnlySlot := func(p world.Party) int {
		idx := -1
		for i, s := range p.In {
			if s.Name == "" {
				if idx >= 0 || s.Sub != "" {
					return -1
				}
				idx = i
			}
		}
		return idx
	}
	okTypeOnly := func(p world.Party) bool {
		return typeOnlySlot(p) >= 0 && len(p.Out) == 1 && p.Out[0].Name == "" && p.Out[0].Sub == "" && !p.Once
	}
	view := model.ViewOf(&w, last)
	// every other parameter of the target has an exactly keyed value, or is a
	// further named parameter of type T1 to be converted from its namesake
	for _, s := range t.In[1:] {
		if s.Name != "" && s.Sub == "" && s.Type == T1 {
			continue
		}
		ok := false
		for _, l := range view.Supplied {
			if l == s.Label {
				ok = true
			}
		}
		if !ok {
			return "", "", 0, 0, 0, 0
		}
	}
	subSeen := map[string]bool{}
	for _, l := range view.Supplied {
		t0 := -1
		for _, pp := range prod {
			if ts := typeOnlySlot(w.Parties[pp]); ts >= 0 && t0 < 0 {
				t0 = w.Parties[pp].In[ts].Type
			}
		}
		if l.Sub != "" && (l.Name == "" || l.Type != t0) {
			return "", "", 0, 0, 0, 0
		}
		if l.Name != "" && l.Type == t0 {
			subSeen[l.Sub] = true
		}
	}
	if len(subSeen) > 1 {
		return "", "", 0, 0, 0, 0
	}
	countNamed := func(T int) (total int, hasN bool, typed bool) {
		for _, l := range view.Supplied {
			if l.Name != "" && l.Type == T {
				total++
				if l.Name == n {
					hasN = true
				}
			}
			if l.Name == "" && l.Type == T {
				typed = true
			}
		}
		return
	}
	// no other converter may produce T0 or consume T1 into T0 (keep the shape pure)
	switch len(prod) {
	case 1:
		p := w.Parties[prod[0]]
		if !okTypeOnly(p) {
			return "", "", 0, 0, 0, 0
		}
		T0 = p.In[typeOnlySlot(p)].Type
		tot, hasN, typed := countNamed(T0)
		if _ = typed; tot < 2 || !hasN || T0 == T1 {
			return "", "", 0, 0, 0, 0
		}
		for _, fs := range p.In {
			if fs.Name == "" {
				continue
			}
			ok := fs.Type != T0 && fs.Type != T1 && fs.Sub == ""
			found := false
			for _, l := range view.Supplied {
				if l == fs.Label {
					found = true
				}
			}
			if !ok || !found {
				return "", "", 0, 0, 0, 0
			}
		}
		for ai, a := range w.Args {
			if used[ai] && (a.Kind == world.ArgConv || a.Kind == world.ArgConvFunc) && a.Party != prod[0] {
				for _, o := range w.Parties[a.Party].Out {
					if o.Type == T0 {
						return "", "", 0, 0, 0, 0
					}
				}
			}
		}
		for _, s := range t.In[1:] {
			if s.Type == T1 {
				found := false
				for _, l := range view.Supplied {
					if l.Name == s.Name && l.Type == T0 {
						found = true
					}
				}
				if !found {
					return "", "", 0, 0, 0, 0
				}
			}
		}
		return "A", n, T0, T1, prod[0], -1
	case 2:
		a, b := w.Parties[prod[0]], w.Parties[prod[1]]
		ci, ni := prod[0], prod[1]
		if !okTypeOnly(a) {
			a, b = b, a
			ci, ni = ni, ci
		}
		if !okTypeOnly(a) || typeOnlySlot(b) >= 0 || len(b.Out) != 1 || b.Out[0].Name != "" || b.Out[0].Sub != "" || b.Once {
			return "", "", 0, 0, 0, 0
		}
		T0 = a.In[typeOnlySlot(a)].Type
		hasNameInput := false
		for _, pp := range []world.Party{a, b} {
			for _, fs := range pp.In {
				if fs.Name == "" {
					continue
				}
				if fs.Name == n && fs.Type == T0 && fs.Sub == "" {
					hasNameInput = true
					continue
				}
				found := false
				for _, l := range view.Supplied {
					if l == fs.Label {
						found = true
					}
				}
				if !found || fs.Type == T0 || fs.Type == T1 || fs.Sub != "" {
					return "", "", 0, 0, 0, 0
				}
			}
		}
		nameIn := false
		for _, fs := range b.In {
			if fs.Name == n && fs.Type == T0 {
				nameIn = true
			}
		}
		if !hasNameInput || !nameIn {
			return "", "", 0, 0, 0, 0
		}
		tot, hasN, typed := countNamed(T0)
		if tot != 1 || !hasN || typed || T0 == T1 || subSeen[""] == false {
			return "", "", 0, 0, 0, 0
		}
		for _, s := range t.In[1:] {
			if s.Type == T1 {
				return "", "", 0, 0, 0, 0
			}
		}
		for ai, x := range w.Args {
			if used[ai] && (x.Kind == world.ArgConv || x.Kind == world.ArgConvFunc) && x.Party != ci && x.Party != ni {
				for _, o := range w.Parties[x.Party].Out {
					if o.Type == T0 {
						return "", "", 0, 0, 0, 0
					}
				}
			}
		}
		return "B", n, T0, T1, ci, ni
	}
	return "", "", 0, 0, 0, 0
}

func c07Valid(w world.World) bool { s, _, _, _, _, _ := c07Shape(w); return s != "" }

func (C07) Decode(raw json.RawMessage) (core.Case, error) { return decodeRCase(raw) }
func (C07) Shrink(c core.Case) []core.Case                { return shrinkWorlds(c, c07Valid, false) }
func (C07) Shape(c core.Case, v core.Violation) string    { return shapeOf(c.(RCase).W, v) }

func (C07) Run(c core.Case, ctx *core.Ctx) []core.Violation {
	w := c.(RCase).W
	if !world.WellFormed(w, false) {
		return nil
	}
	shape, n, T0, _, conv, nameConv := c07Shape(w)
	if shape == "" {
		ctx.St.Inc("c07_not_in_shape")
		return nil
	}
	sh := world.ShapeHash(w)
	last := len(w.Ops) - 1
	tgt := w.Ops[last].Target
	cands := 0
	mixed := false
	var wantArg = -1
	view := model.ViewOf(&w, last)
	for i, l := range view.Supplied {
		if l.Name != "" && l.Type == T0 {
			cands++
			if l.Name == n {
				wantArg = view.SupArgs[i]
			}
		}
	}
	for _, ai := range w.Ops[last].Args {
		if a := w.Args[ai]; a.Kind == world.ArgNamed && a.Spell != a.Label.Name {
			mixed = true
		}
	}
	var out []core.Violation
	add := func(class, detail string) {
		out = append(out, core.Violation{Class: class, Site: "Call", Detail: detail})
	}
	for k := 0; k < ctx.NumSchedules(); k++ {
		rt, sim := execWorld(&w, ctx, k)
		if rt.InstErr != nil {
			ctx.St.Inc("inst_rejected")
			finish(ctx, rt, sim)
			return nil
		}
		ctx.St.Inc("c07_shape_" + map[string]string{"A": "a", "B": "b"}[shape])
		if shape == "A" && cands >= 3 {
			ctx.St.Inc("c07_a_ge3_candidates")
		}
		if mixed {
			ctx.St.Inc("c07_mixed_case_names")
		}
		if shape == "A" {
			for _, l := range view.Supplied {
				if l.Type == T0 && l.Sub != "" {
					ctx.St.Inc("c07_a_subtyped_candidates")
					break
				}
			}
		}
		res := rt.Results[last]
		if last > 0 {
			ctx.St.Inc("c07_after_earlier_call")
		}
		switch {
		case !res.Returned:
			out = append(out, core.Violation{Class: res.PanicClass, Site: res.PanicSite, Detail: fmt.Sprintf("shape %s: the call did not return: %s", shape, trunc(res.PanicDetail))})
		case res.Err != nil:
			add("name-affinity-call-failed", fmt.Sprintf("shape %s: the call failed (%s): %s", shape, res.ErrKind, trunc(res.Err.Error())))
		default:
			var convExec, nameExec, tExec *world.ExecRec
			for i := res.LogFrom; i < res.LogTo; i++ {
				rec := &rt.Log[i]
				switch rec.Party {
				case conv:
					convExec = rec
				case nameConv:
					nameExec = rec
				case tgt:
					tExec = rec
				}
			}
			if tExec == nil {
				add("target-not-executed", "no error but the target did not run")
				break
			}
			if shape == "A" {
				if convExec == nil {
					add("converter-not-used", "shape A: the only converter producing the parameter was not executed")
					break
				}
				_ = wantArg
				t := w.Parties[tgt]
				for pi, s := range t.In {
					if s.Name == "" || s.Type != t.In[0].Type {
						continue
					}
					if pi > 0 {
						ctx.St.Inc("c07_a_multi_param")
					}
					// the value this parameter holds must be the product of a conversion
					// whose input was the supplied value of the same name
					id := tExec.In[pi]
					tslot := -1
					for si, cs := range w.Parties[conv].In {
						if cs.Name == "" {
							tslot = si
						}
					}
					if len(w.Parties[conv].In) > 1 {
						ctx.St.Inc("c07_a_converter_with_named_flags")
					}
					if id == 0 || id >= uint64(len(rt.Tokens)) || rt.Tokens[id].Kind != world.TokProduced || rt.Tokens[id].Party != conv || tslot < 0 || len(rt.Tokens[id].Inputs) != len(w.Parties[conv].In) {
						add("target-did-not-receive-conversion", fmt.Sprintf("schedule %d: the target's parameter %q holds token %d, which is not a product of the converter", k, s.Name, id))
						continue
					}
					src := rt.Tokens[id].Inputs[tslot]
					if src == 0 || src >= uint64(len(rt.Tokens)) || rt.Tokens[src].Label.Name != s.Name {
						gl := "the zero value"
						if src != 0 && src < uint64(len(rt.Tokens)) {
							gl = rt.Tokens[src].Label.String()
						}
						add("wrong-named-input-converted", fmt.Sprintf("schedule %d: parameter %q must be converted from the value named %q, but it was converted from the value labelled %s (%d same-typed candidates)", k, s.Name, s.Name, gl, cands))
					}
				}
			} else {
				if len(w.Parties[conv].In) > 1 || len(w.Parties[nameConv].In) > 1 {
					ctx.St.Inc("c07_b_converter_with_named_flags")
				}
				if nameExec == nil || convExec != nil {
					add("type-only-converter-preferred-over-name-using", fmt.Sprintf("schedule %d: name-using converter executed=%v, type-only converter executed=%v", k, nameExec != nil, convExec != nil))
				} else if len(nameExec.Out) != 1 || tExec.In[0] != nameExec.Out[0] {
					add("target-did-not-receive-conversion", fmt.Sprintf("schedule %d: the target's parameter %q holds token %d, not the product %v of the name-using converter", k, n, tExec.In[0], nameExec.Out))
				}
			}
		}
		ctx.MarkNontrivial(sh, sim)
		finish(ctx, rt, sim)
	}
	return sortViolations(out)
}
