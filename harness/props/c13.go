package props

import (
	"encoding/json"
	"fmt"
	"sort"
	"strings"
	"unsafe"

	"github.com/hashicorp/go-argmapper"
	"verif.local/harness/core"
	"verif.local/harness/model"
	"verif.local/harness/world"
	"verif.local/simrt"
)

// C13: the unsatisfied-argument error is truthful.
type C13 struct{}

func (C13) ID() string { return "C13" }

func (C13) Plan(tier string) core.Plan {
	if tier == "thorough" {
		return core.Plan{Cases: 1200000, Schedules: 4}
	}
	return core.Plan{Cases: 100000, Schedules: 3}
}

func (C13) Info() core.Info {
	return core.Info{
		Rule:        "planned and random worlds (all label features, converters in every form, generators, defaults, duplicate keys) to whose target 1-2 hopeless parameters are added (sometimes the judged call is preceded by a call of a second Func whose defaults are a prefix of the same defaults slice): no supplied label and no output slot of any converter PERMIT-matches them. Oracle on the returned error: it is the unsatisfied-argument type; Args contains every hopeless parameter; every element of Args is a parameter of the target without an exactly matching supplied value and outside the EXPECT fixpoint; Inputs equals the supplied values as a multiset of labels (after last-wins de-duplication); Converters contains every supplied converter (by function identity); the message contains the rendering of each missing argument. All list comparisons are order-insensitive (S1 decides their order); the message must contain the Go type string, name and subtype of every hopeless parameter; also judged after a successful call of the same run-once target. Non-trivial: >=1 converter and >=1 supplied value; distinct = distinct (world shape, event-log hash)",
		Assumptions: []string{"a converter given as a raw function is identified by its function pointer, one given as *Func by pointer identity"},
		Probes:      []string{"c13_errors_checked", "c13_args_with_derivable_sibling", "c13_inputs_nonempty", "c13_converters_nonempty", "c13_duplicate_keys", "c13_same_signature_converters", "c13_after_call_of_prefix_sharing_func", "c13_after_successful_call_of_once_target", "s1_nonidentity_perms"},
		Real:        realComponents,
		Simulated:   simComponents,
	}
}

func hopelessParams(w *world.World, v model.View, t int) []int {
	var out []int
	for i, s := range w.Parties[t].In {
		hopeless := true
		for _, l := range v.Supplied {
			if model.Permit(l, s.Label) {
				hopeless = false
			}
		}
		for _, pi := range append(append([]int{}, v.Convs...), v.GenParties...) {
			for _, o := range w.Parties[pi].Out {
				ol := o.Label
				if model.Permit(ol, s.Label) {
					hopeless = false
				}
				// generator-derived variants may carry any subtype
				ol.Sub = s.Sub
				if model.Permit(ol, s.Label) && containsInt(v.GenParties, pi) {
					hopeless = false
				}
			}
		}
		if hopeless {
			out = append(out, i)
		}
	}
	return out
}

func containsInt(xs []int, x int) bool {
	for _, y := range xs {
		if y == x {
			return true
		}
	}
	return false
}

func (C13) Gen(r *simrt.RNG, tier string) core.Case {
	cfg := world.SwarmCfg(r)
	world.Deepen(&cfg, r, tier)
	var w world.World
	if r.Chance(2, 3) {
		w = world.GenPlanned(r, cfg)
	} else {
		w = world.GenWorld(r, cfg)
	}
	if r.Chance(1, 4) {
		breakWorld(r, &w)
	}
	// duplicate a supplied key now and then (last wins)
	if r.Chance(1, 5) {
		for ai, a := range w.Args {
			if a.Kind == world.ArgNamed || a.Kind == world.ArgTyped {
				w.Args = append(w.Args, a)
				w.Ops[0].Args = append(w.Ops[0].Args, len(w.Args)-1)
				_ = ai
				break
			}
		}
	}
	// two distinct converters with one Go signature now and then
	if r.Chance(1, 5) && len(w.Parties) > 1 {
		pi := 1 + r.Intn(len(w.Parties)-1)
		if !w.Parties[pi].Once {
			w.Parties = append(w.Parties, w.Parties[pi])
			w.Args = append(w.Args, world.ArgSpec{Kind: []string{world.ArgConv, world.ArgConvFunc}[r.Intn(2)], Party: len(w.Parties) - 1})
			if w.Parties[pi].InForm == world.FormBuilt {
				w.Args[len(w.Args)-1].Kind = world.ArgConvFunc
			}
			w.Ops[0].Args = append(w.Ops[0].Args, len(w.Args)-1)
		}
	}
	// hopeless parameters: types nothing supplies or produces
	used := map[int]bool{}
	for _, a := range w.Args {
		if a.Kind == world.ArgNamed || a.Kind == world.ArgTyped {
			used[a.Label.Type] = true
		}
	}
	for _, p := range w.Parties {
		for _, o := range p.Out {
			used[o.Type] = true
			if world.IsIface(o.Type) {
				used[o.Impl] = true
			}
		}
		for _, s := range p.In {
			used[s.Type] = true
		}
	}
	n := 1 + r.Intn(2)
	t := &w.Parties[0]
	for i := 0; i < n; i++ {
		var free []int
		for ty := 0; ty < world.IfaceBase; ty++ {
			if !used[ty] {
				free = append(free, ty)
			}
		}
		if len(free) == 0 {
			break
		}
		ty := free[r.Intn(len(free))]
		used[ty] = true
		s := world.Slot{Label: world.Label{Type: ty}}
		if t.InForm != world.FormPositional {
			if r.Bool() {
				s.Name = []string{"x", "y"}[i]
			}
			if r.Chance(1, 4) {
				s.Sub = "s3"
			}
		}
		pos := r.Intn(len(t.In) + 1)
		in := append([]world.Slot{}, t.In[:pos]...)
		in = append(in, s)
		t.In = append(in, t.In[pos:]...)
	}
	// two Funcs carved out of one defaults slice: the first call must not disturb
	// what the second reports
	if r.Chance(1, 6) {
		var vals []int
		for _, a := range w.Ops[0].Args {
			if k := w.Args[a].Kind; k == world.ArgNamed || k == world.ArgTyped {
				vals = append(vals, a)
			}
		}
		if len(vals) >= 2 && len(w.Parties[0].Defaults) == 0 {
			// move the supplied values into the defaults of party 0
			var rest []int
			for _, a := range w.Ops[0].Args {
				if k := w.Args[a].Kind; !(k == world.ArgNamed || k == world.ArgTyped) {
					rest = append(rest, a)
				}
			}
			w.Parties[0].Defaults = vals
			w.Ops[0].Args = rest
			k := 1 + r.Intn(len(vals)-1)
			t2 := w.Parties[0]
			t2.Defaults = append([]int{}, vals[:k]...)
			t2.SharePrefixOf = 1
			w.Parties = append(w.Parties, t2)
			// its call passes other values of its own (fresh options with unrelated names)
			var args2 []int
			args2 = append(args2, rest...)
			for i := 0; i < len(vals)-k+1; i++ {
				w.Args = append(w.Args, world.ArgSpec{Kind: world.ArgNamed, Label: world.Label{Name: []string{"p", "q", "r", "s", "t"}[i%5], Type: w.Args[vals[0]].Label.Type}, Spell: []string{"p", "q", "r", "s", "t"}[i%5]})
				args2 = append(args2, len(w.Args)-1)
			}
			w.Ops = append([]world.Op{{Kind: world.OpCall, Target: len(w.Parties) - 1, Args: args2}}, w.Ops...)
		}
	}
	// a run-once target that has already run must still report what is missing
	if len(w.Ops) == 1 && r.Chance(1, 8) {
		for pi := range w.Parties {
			w.Parties[pi].Once = pi == 0
		}
		first := world.Op{Kind: world.OpCall, Target: 0, Args: append([]int{}, w.Ops[0].Args...)}
		for _, s := range w.Parties[0].In {
			a := world.ArgSpec{Kind: world.ArgTyped, Label: s.Label}
			if world.IsIface(s.Type) {
				a.Label.Type = world.Implementors(s.Type)[0]
			}
			if s.Name != "" {
				a.Kind, a.Spell = world.ArgNamed, s.Name
			}
			w.Args = append(w.Args, a)
			first.Args = append(first.Args, len(w.Args)-1)
		}
		w.Ops = []world.Op{first, w.Ops[0]}
	}
	return RCase{W: w}
}

func c13Valid(w world.World) bool {
	if len(w.Ops) == 0 || len(w.Faults) != 0 {
		return false
	}
	for _, o := range w.Ops {
		if o.Kind != world.OpCall {
			return false
		}
	}
	last := len(w.Ops) - 1
	v := model.ViewOf(&w, last)
	if v.HasNilOpt || v.HasBadConv {
		return false
	}
	for _, a := range w.Args {
		if a.Kind == world.ArgGen && a.Gen.Fault == 2 {
			return false
		}
	}
	return len(hopelessParams(&w, v, w.Ops[last].Target)) > 0
}

func (C13) Decode(raw json.RawMessage) (core.Case, error) { return decodeRCase(raw) }
func (C13) Shrink(c core.Case) []core.Case                { return shrinkWorlds(c, c13Valid, false) }
func (C13) Shape(c core.Case, v core.Violation) string    { return shapeOf(c.(RCase).W, v) }

func labelOfValue(v *argmapper.Value) world.Label {
	return world.Label{Name: v.Name, Type: world.TypeIndex(v.Type), Sub: v.Subtype}
}

func sortedLabels(ls []world.Label) []string {
	var out []string
	for _, l := range ls {
		out = append(out, l.String())
	}
	sort.Strings(out)
	return out
}

func (C13) Run(c core.Case, ctx *core.Ctx) []core.Violation {
	w := c.(RCase).W
	if !world.WellFormed(w, false) || !c13Valid(w) {
		return nil
	}
	sh := world.ShapeHash(w)
	last := len(w.Ops) - 1
	view := model.ViewOf(&w, last)
	tgt := w.Ops[last].Target
	t := w.Parties[tgt]
	hopeless := hopelessParams(&w, view, tgt)
	availE, _ := model.LFP(&w, view, model.Expect, false)
	derivableSibling := len(model.Missing(&w, tgt, availE, model.Expect)) < len(t.In)
	dupKeys := false
	{
		n := 0
		for _, ai := range append(append([]int{}, t.Defaults...), w.Ops[last].Args...) {
			if k := w.Args[ai].Kind; k == world.ArgNamed || k == world.ArgTyped {
				n++
			}
		}
		dupKeys = n > len(view.Supplied)
	}
	var out []core.Violation
	add := func(class, detail string) {
		out = append(out, core.Violation{Class: class, Site: "Call", Detail: detail})
	}
	for k := 0; k < ctx.NumSchedules(); k++ {
		rt, sim := execWorld(&w, ctx, k)
		if rt.InstErr != nil {
			ctx.St.Inc("inst_rejected")
			finish(ctx, rt, sim)
			return nil
		}
		res := rt.Results[last]
		if last > 0 && w.Ops[0].Target != tgt {
			ctx.St.Inc("c13_after_call_of_prefix_sharing_func")
		}
		if last > 0 && w.Ops[0].Target == tgt && rt.Results[0].Returned && rt.Results[0].Err == nil {
			ctx.St.Inc("c13_after_successful_call_of_once_target")
		}
		switch {
		case !res.Returned:
			out = append(out, core.Violation{Class: res.PanicClass, Site: res.PanicSite, Detail: "a hopeless parameter must yield the unsatisfied-argument error, but the call did not return: " + trunc(res.PanicDetail)})
		case res.ErrKind != "unsatisfied":
			msg := "<nil>"
			if res.Err != nil {
				msg = trunc(res.Err.Error())
			}
			add("hopeless-parameter-not-reported-as-unsatisfied", fmt.Sprintf("a parameter no value or converter output can match, yet the result is kind %q: %s", res.ErrKind, msg))
		default:
			ctx.St.Inc("c13_errors_checked")
			ue := res.Unsat
			var args []world.Label
			for _, a := range ue.Args {
				args = append(args, labelOfValue(a))
			}
			has := func(l world.Label) bool {
				for _, a := range args {
					if a == l {
						return true
					}
				}
				return false
			}
			for _, hi := range hopeless {
				if !has(t.In[hi].Label) {
					add("missing-list-lacks-hopeless-parameter", fmt.Sprintf("hopeless parameter %s is not in Args %v", t.In[hi].Label, sortedLabels(args)))
				}
			}
			for _, a := range args {
				isParam := false
				for _, s := range t.In {
					if s.Label == a {
						isParam = true
					}
				}
				if !isParam {
					add("missing-list-has-non-parameter", fmt.Sprintf("Args contains %s, which is not a parameter of the target", a))
					continue
				}
				for _, l := range view.Supplied {
					if l == a {
						add("missing-list-has-exactly-supplied-parameter", fmt.Sprintf("Args contains %s although a value with exactly that key was supplied", a))
					}
				}
				if model.Has(availE, a, model.Expect) {
					add("missing-list-has-derivable-parameter", fmt.Sprintf("Args contains %s, which is derivable under the documented rules", a))
				}
			}
			if derivableSibling {
				ctx.St.Inc("c13_args_with_derivable_sibling")
			}
			// inputs: exactly the supplied values
			var inputs []world.Label
			for _, v := range ue.Inputs {
				inputs = append(inputs, labelOfValue(v))
			}
			if got, want := sortedLabels(inputs), sortedLabels(view.Supplied); strings.Join(got, ";") != strings.Join(want, ";") {
				add("inputs-list-wrong", fmt.Sprintf("Inputs %v, supplied %v", got, want))
			}
			if len(view.Supplied) > 0 {
				ctx.St.Inc("c13_inputs_nonempty")
			}
			// converters: every supplied converter
			if len(view.Convs) > 0 {
				ctx.St.Inc("c13_converters_nonempty")
			}
			for i, a := range view.Convs {
				for _, b := range view.Convs[:i] {
					if a != b && w.Parties[a].String() == w.Parties[b].String() && w.Parties[a].HasErr == w.Parties[b].HasErr {
						ctx.St.Inc("c13_same_signature_converters")
					}
				}
			}
			for _, pi := range view.Convs {
				want := funcIdentity(rt.Func(pi).Func())
				found := false
				for _, cf := range ue.Converters {
					if cf == rt.Func(pi) || (cf.Func() != nil && funcIdentity(cf.Func()) == want) {
						found = true
					}
				}
				if !found {
					add("converters-list-incomplete", fmt.Sprintf("supplied converter %d (%s) is not in Converters (%d entries)", pi, w.Parties[pi], len(ue.Converters)))
				}
			}
			// message mentions each missing argument
			var msg string
			if p, class, site, detail := core.Guard(func() { msg = ue.Error() }); p {
				out = append(out, core.Violation{Class: class, Site: site, Detail: "Error() of the unsatisfied error: " + detail})
			} else {
				for _, a := range ue.Args {
					if !strings.Contains(msg, a.String()) {
						add("message-lacks-missing-argument", fmt.Sprintf("message does not mention %q", a.String()))
					}
				}
				// independently of the library's own rendering: the Go type of every hopeless
				// parameter, its name and its subtype appear in the text
				for _, hi := range hopeless {
					l := t.In[hi].Label
					for _, part := range []string{world.Types[l.Type].String(), l.Name, l.Sub} {
						if part != "" && !strings.Contains(msg, part) {
							add("message-lacks-missing-argument", fmt.Sprintf("the message does not contain %q of missing parameter %s", part, l))
						}
					}
				}
			}
			if dupKeys {
				ctx.St.Inc("c13_duplicate_keys")
			}
		}
		if len(view.Convs) > 0 && len(view.Supplied) > 0 {
			ctx.MarkNontrivial(sh, sim)
		}
		finish(ctx, rt, sim)
	}
	return sortViolations(out)
}

// funcIdentity is the address of the function value (closure object) behind an
// interface holding a func: unique per reflect.MakeFunc call, unlike the code
// pointer, which all MakeFunc functions share.
func funcIdentity(fn interface{}) unsafe.Pointer {
	return (*[2]unsafe.Pointer)(unsafe.Pointer(&fn))[1]
}
