package props

import (
	"encoding/json"
	"fmt"

	"verif.local/harness/core"
	"verif.local/harness/model"
	"verif.local/harness/world"
	"verif.local/simrt"
)

// C16: options — case-insensitive names, last wins, call overrides default,
// nil-safe, permutation-invariant on exact-match worlds.
type C16 struct{}

func (C16) ID() string { return "C16" }

func (C16) Plan(tier string) core.Plan {
	if tier == "thorough" {
		return core.Plan{Cases: 600000, Schedules: 16}
	}
	return core.Plan{Cases: 60000, Schedules: 6}
}

func (C16) Info() core.Info {
	return core.Info{
		Rule:        "exact-match worlds over distinct parameter types (so the designated option of every parameter is unique) whose option list is transformed by the PRNG: random casing of names on both sides, duplicates of a key at random distance, a split into NewFunc defaults and Call options with overlapping keys, interleaved nil values, options with the same name/type under another subtype (distinct keys), and sometimes a second Func of the same signature whose defaults are a sub-slice (prefix) of the first one's defaults slice and which is called first; several type-only values and nils bundled into one Typed(...) option; history = the call, the same call with the distinct-key groups permuted (reusing the same option values), the call again without the options that merely overrode a default (the default must apply again), and the call with a nil option inserted. Each under 6-16 seeded iteration-order schedules (the option list lands in four Go maps that are then ranged). Oracle: each parameter's token is the one of the option the rules designate (last occurrence in defaults-then-call order); the permuted call delivers the same tokens; the nil-option call returns an error and runs nothing; names include one whose upper-case letters are not ASCII; a refused construction is a violation. Non-trivial: some transformation applied; distinct = distinct (world shape, event-log hash)",
		Assumptions: []string{"parameter types are pairwise distinct within a target, which makes the designated option of a type-only parameter unique"},
		Probes:      []string{"c16_calls", "c16_duplicate_keys", "c16_default_overridden", "c16_default_used", "c16_mixed_case", "c16_nil_value_present", "c16_nil_option_calls", "c16_permuted_calls", "c16_other_subtype_key", "c16_prefix_sharing_func_called", "c16_typed_multi_option", "c16_default_applies_after_override", "s1_nonidentity_perms"},
		Real:        realComponents,
		Simulated:   simComponents,
	}
}

func (C16) Gen(r *simrt.RNG, tier string) core.Case {
	perm := []int{0, 1, 2, 3, 4, 5, 6, 7, 8, 9, 10, 11, 12, 13}
	for i := len(perm) - 1; i > 0; i-- {
		j := r.Intn(i + 1)
		perm[i], perm[j] = perm[j], perm[i]
	}
	var w world.World
	form := []int{world.FormStruct, world.FormStruct, world.FormPtrStruct, world.FormPositional, world.FormBuilt}[r.Intn(5)]
	t := world.Party{InForm: form, OutForm: world.FormPositional, HasErr: form == world.FormBuilt || r.Bool()}
	if form == world.FormBuilt {
		t.OutForm = world.FormBuilt
	}
	np := 1 + r.Intn(4)
	names := append([]string{}, world.Names...)
	for i := len(names) - 1; i > 0; i-- {
		j := r.Intn(i + 1)
		names[i], names[j] = names[j], names[i]
	}
	for i := 0; i < np; i++ {
		s := world.Slot{Label: world.Label{Type: perm[i]}, Spell: r.Intn(3)}
		if form != world.FormPositional {
			if r.Chance(2, 3) {
				s.Name = names[i]
			}
			if r.Chance(1, 4) {
				s.Sub = world.Subs[r.Intn(2)]
			}
		}
		t.In = append(t.In, s)
	}
	w.Parties = append(w.Parties, t)
	mk := func(l world.Label) int {
		a := world.ArgSpec{Kind: world.ArgTyped, Label: l}
		if l.Name != "" {
			a.Kind = world.ArgNamed
			a.Spell = world.RandomCase(r, l.Name)
		}
		w.Args = append(w.Args, a)
		return len(w.Args) - 1
	}
	var defaults, call []int
	for _, s := range t.In {
		n := 1
		if r.Chance(1, 3) {
			n += 1 + r.Intn(2) // duplicates
		}
		for j := 0; j < n; j++ {
			ai := mk(s.Label)
			if r.Chance(1, 3) {
				defaults = append(defaults, ai)
			} else {
				call = append(call, ai)
			}
		}
	}
	// same name (or type), other subtype (or none where the parameter has one, one where
	// it has none): a distinct key that must not disturb the exact one
	for _, sl := range t.In {
		if (sl.Sub != "" && r.Chance(1, 2)) || (sl.Sub == "" && r.Chance(1, 4)) {
			l := sl.Label
			if l.Sub == "" {
				l.Sub = world.Subs[r.Intn(2)]
			} else if r.Chance(1, 3) {
				l.Sub = ""
			} else if l.Sub == world.Subs[0] {
				l.Sub = world.Subs[1]
			} else {
				l.Sub = world.Subs[0]
			}
			ai := mk(l)
			if r.Chance(1, 3) {
				defaults = append(defaults, ai)
			} else {
				call = append(call, ai)
			}
		}
	}
	// several type-only values (and nils) in one Typed(...) option
	if r.Chance(1, 3) {
		var comps, rest []int
		for _, ai := range call {
			if a := w.Args[ai]; a.Kind == world.ArgTyped && a.Label.Sub == "" && len(comps) < 3 && r.Chance(2, 3) {
				comps = append(comps, ai)
			} else {
				rest = append(rest, ai)
			}
		}
		if len(comps) >= 1 {
			m := world.ArgSpec{Kind: world.ArgTypedMulti, Multi: comps, NilLast: r.Chance(1, 3)}
			for range comps {
				m.NilBefore = append(m.NilBefore, r.Chance(1, 2))
			}
			w.Args = append(w.Args, m)
			call = append(rest, len(w.Args)-1)
		}
	}
	// nil values interleaved
	if r.Chance(1, 3) {
		a := world.ArgSpec{Kind: world.ArgNilValue}
		if r.Bool() && t.In[0].Name != "" {
			a.Label.Name = t.In[0].Name // a nil value under a real key must not erase it
		}
		w.Args = append(w.Args, a)
		call = append(call, len(w.Args)-1)
	}
	shuffle := func(xs []int) {
		for i := len(xs) - 1; i > 0; i-- {
			j := r.Intn(i + 1)
			xs[i], xs[j] = xs[j], xs[i]
		}
	}
	shuffle(defaults)
	shuffle(call)
	w.Parties[0].Defaults = defaults
	w.Ops = append(w.Ops, world.Op{Kind: world.OpCall, Target: 0, Args: call, Twin: 1})
	// permuted twin: permute while keeping the relative order inside each key group
	keyOf := func(ai int) string {
		a := w.Args[ai]
		if a.Kind == world.ArgNilValue {
			return "nil"
		}
		if a.Label.Name != "" {
			return "n:" + a.Label.Name + "/" + a.Label.Sub
		}
		return fmt.Sprintf("t:%d/%s", a.Label.Type, a.Label.Sub)
	}
	// an option bundling several values forms one group with every option that
	// sets one of its components' keys (their relative order matters)
	multiKeys := map[string]bool{}
	for _, ai := range call {
		if w.Args[ai].Kind == world.ArgTypedMulti {
			for _, ci := range w.Args[ai].Multi {
				multiKeys[keyOf(ci)] = true
			}
		}
	}
	groupOf := func(ai int) string {
		if w.Args[ai].Kind == world.ArgTypedMulti || multiKeys[keyOf(ai)] {
			return "multi"
		}
		return keyOf(ai)
	}
	groups := map[string][]int{}
	var order []string
	for _, ai := range call {
		k := groupOf(ai)
		if _, ok := groups[k]; !ok {
			order = append(order, k)
		}
		groups[k] = append(groups[k], ai)
	}
	// interleave: repeatedly pick a random group and emit its next element
	var twin []int
	idx := map[string]int{}
	remaining := len(call)
	for remaining > 0 {
		k := order[r.Intn(len(order))]
		if idx[k] < len(groups[k]) {
			twin = append(twin, groups[k][idx[k]])
			idx[k]++
			remaining--
		}
	}
	w.Ops = append(w.Ops, world.Op{Kind: world.OpCall, Target: 0, Args: twin, Twin: 2})
	// the call again without the options that merely override a default: the default applies
	{
		inDefaults := map[string]bool{}
		for _, ai := range defaults {
			inDefaults[keyOf(ai)] = true
		}
		var trimmed []int
		dropped := false
		for _, ai := range call {
			if w.Args[ai].Kind != world.ArgTypedMulti && inDefaults[keyOf(ai)] {
				dropped = true
				continue
			}
			trimmed = append(trimmed, ai)
		}
		if dropped {
			w.Ops = append(w.Ops, world.Op{Kind: world.OpCall, Target: 0, Args: trimmed})
		}
	}
	// a second Func built from a prefix of the same defaults slice, called first
	if len(defaults) >= 2 && r.Chance(1, 3) {
		k := 1 + r.Intn(len(defaults)-1)
		t2 := w.Parties[0]
		t2.Defaults = append([]int{}, defaults[:k]...)
		t2.SharePrefixOf = 1
		w.Parties = append(w.Parties, t2)
		// its call supplies what the shorter defaults lack (fresh option values)
		var args2 []int
		for _, sl := range t.In {
			args2 = append(args2, mk(sl.Label))
		}
		w.Ops = append([]world.Op{{Kind: world.OpCall, Target: 1, Args: args2}}, w.Ops...)
	}
	// nil option
	if r.Chance(1, 2) {
		w.Args = append(w.Args, world.ArgSpec{Kind: world.ArgNilOpt})
		pos := r.Intn(len(call) + 1)
		withNil := append([]int{}, call[:pos]...)
		withNil = append(withNil, len(w.Args)-1)
		withNil = append(withNil, call[pos:]...)
		w.Ops = append(w.Ops, world.Op{Kind: world.OpCall, Target: 0, Args: withNil})
	}
	return RCase{W: w}
}

func c16Valid(w world.World) bool {
	if len(w.Faults) != 0 || len(w.Parties) < 1 || len(w.Parties) > 2 || len(w.Parties[0].In) == 0 {
		return false
	}
	if len(w.Parties) == 2 {
		// a second Func of the same signature whose defaults are a prefix of the first one's
		a, b := w.Parties[0], w.Parties[1]
		if b.SharePrefixOf != 1 || a.String() != b.String() || a.HasErr != b.HasErr {
			return false
		}
	}
	seen := map[int]bool{}
	for _, s := range w.Parties[0].In {
		if seen[s.Type] || world.IsIface(s.Type) {
			return false
		}
		seen[s.Type] = true
	}
	for _, a := range w.Args {
		switch a.Kind {
		case world.ArgNamed, world.ArgTyped, world.ArgNilValue, world.ArgNilOpt, world.ArgTypedMulti:
		default:
			return false
		}
		if a.Kind == world.ArgNamed || a.Kind == world.ArgTyped {
			// only keys of the parameters, or the same name/type under another subtype
			// (a distinct key): the designated option of every parameter stays unique
			ok := false
			for _, s := range w.Parties[0].In {
				if s.Label == a.Label {
					ok = true
				}
				if a.Label.Sub != s.Sub && s.Name == a.Label.Name && s.Type == a.Label.Type {
					ok = true // same name and type under another subtype, or with/without one
				}
			}
			if !ok {
				return false
			}
		}
	}
	for _, o := range w.Ops {
		if o.Kind != world.OpCall || o.Target < 0 || o.Target >= len(w.Parties) {
			return false
		}
	}
	return true
}

func (C16) Decode(raw json.RawMessage) (core.Case, error) { return decodeRCase(raw) }
func (C16) Shrink(c core.Case) []core.Case                { return shrinkWorlds(c, c16Valid, false) }
func (C16) Shape(c core.Case, v core.Violation) string    { return shapeOf(c.(RCase).W, v) }

func (C16) Run(c core.Case, ctx *core.Ctx) []core.Violation {
	w := c.(RCase).W
	if !world.WellFormed(w, false) || !c16Valid(w) {
		return nil
	}
	sh := world.ShapeHash(w)
	var out []core.Violation
	add := func(class, detail string) {
		out = append(out, core.Violation{Class: class, Site: "Call", Detail: detail})
	}
	transformed := false
	for k := 0; k < ctx.NumSchedules(); k++ {
		rt, sim := execWorld(&w, ctx, k)
		if rt.InstErr != nil {
			// nothing in these worlds is malformed: a constructor that refuses one of its
			// functions or value lists has refused legal input
			ctx.St.Inc("inst_rejected")
			finish(ctx, rt, sim)
			return []core.Violation{{Class: "construction-refused", Site: "NewFunc", Detail: "a constructor returned an error for well-formed input: " + trunc(rt.InstErr.Error())}}
		}
		var firstTokens []uint64
		twinDone := false
		for oi, res := range rt.Results {
			if res == nil {
				continue
			}
			view := model.ViewOf(&w, oi)
			tgt := w.Ops[oi].Target
			t := w.Parties[tgt]
			if tgt == 1 {
				ctx.St.Inc("c16_prefix_sharing_func_called")
			}
			if !res.Returned {
				if view.HasNilOpt {
					out = append(out, core.Violation{Class: res.PanicClass, Site: res.PanicSite, Detail: "a nil option made the call panic: " + trunc(res.PanicDetail)})
				} else {
					out = append(out, core.Violation{Class: res.PanicClass, Site: res.PanicSite, Detail: fmt.Sprintf("op %d: every parameter has an exactly keyed option but the call did not return: %s", oi, trunc(res.PanicDetail))})
				}
				continue
			}
			if view.HasNilOpt {
				ctx.St.Inc("c16_nil_option_calls")
				if res.Err == nil {
					add("nil-option-accepted", fmt.Sprintf("op %d: a nil option was given but the call returned no error", oi))
				}
				if res.LogTo != res.LogFrom {
					add("nil-option-call-executed-something", fmt.Sprintf("op %d: a party ran although an option was nil", oi))
				}
				continue
			}
			ctx.St.Inc("c16_calls")
			if oi >= 2 && tgt == 0 && len(w.Ops[oi].Args) < len(w.Ops[0].Args) {
				ctx.St.Inc("c16_default_applies_after_override")
			}
			// designated option per parameter: last occurrence in defaults-then-call order
			var full []int
			for _, ai := range append(append([]int{}, t.Defaults...), w.Ops[oi].Args...) {
				if w.Args[ai].Kind == world.ArgTypedMulti {
					full = append(full, w.Args[ai].Multi...)
					ctx.St.Inc("c16_typed_multi_option")
					transformed = true
					continue
				}
				full = append(full, ai)
			}
			ndef := 0
			for _, ai := range t.Defaults {
				if w.Args[ai].Kind == world.ArgTypedMulti {
					ndef += len(w.Args[ai].Multi)
				} else {
					ndef++
				}
			}
			want := make([]int, len(t.In))
			complete := true
			for pi, s := range t.In {
				want[pi] = -1
				cnt, fromDefault, defaultSeen := 0, false, false
				for pos, ai := range full {
					a := w.Args[ai]
					if (a.Kind == world.ArgNamed || a.Kind == world.ArgTyped) && a.Label == s.Label {
						want[pi] = ai
						cnt++
						fromDefault = pos < ndef
						if fromDefault {
							defaultSeen = true
						}
					}
					if (a.Kind == world.ArgNamed || a.Kind == world.ArgTyped) && a.Label != s.Label && a.Label.Name == s.Name && a.Label.Type == s.Type {
						ctx.St.Inc("c16_other_subtype_key")
						transformed = true
					}
					if a.Kind == world.ArgNilValue {
						ctx.St.Inc("c16_nil_value_present")
						transformed = true
					}
					if a.Kind == world.ArgNamed && a.Spell != a.Label.Name {
						ctx.St.Inc("c16_mixed_case")
						transformed = true
					}
				}
				if want[pi] < 0 {
					complete = false
				}
				if cnt > 1 {
					ctx.St.Inc("c16_duplicate_keys")
					transformed = true
				}
				if defaultSeen && !fromDefault {
					ctx.St.Inc("c16_default_overridden")
					transformed = true
				}
				if fromDefault {
					ctx.St.Inc("c16_default_used")
					transformed = true
				}
			}
			if !complete {
				continue // shrunk world without an exact value for some parameter: nothing to designate
			}
			if res.Err != nil {
				add("exact-option-call-failed", fmt.Sprintf("op %d: every parameter has an exactly keyed option but the call failed (%s): %s", oi, res.ErrKind, trunc(res.Err.Error())))
				continue
			}
			var texec *world.ExecRec
			for i := res.LogFrom; i < res.LogTo; i++ {
				if rt.Log[i].Party == tgt {
					texec = &rt.Log[i]
				}
			}
			if texec == nil {
				add("target-not-executed", fmt.Sprintf("op %d: no error but the target did not run", oi))
				continue
			}
			for pi, s := range t.In {
				if got, wantTok := texec.In[pi], rt.ArgTok[want[pi]]; got != wantTok {
					gl := "zero"
					if got != 0 && got < uint64(len(rt.Tokens)) {
						gl = fmt.Sprintf("option %d", rt.Tokens[got].Arg)
					}
					add("wrong-option-instance-injected", fmt.Sprintf("op %d schedule %d: parameter %s must receive the value of option %d (last occurrence of its key), received that of %s", oi, k, s.Label, want[pi], gl))
				}
			}
			if w.Ops[oi].Twin == 1 {
				firstTokens = append([]uint64{}, texec.In...)
			} else if w.Ops[oi].Twin == 2 && firstTokens != nil && !twinDone {
				twinDone = true
				ctx.St.Inc("c16_permuted_calls")
				for pi := range texec.In {
					if pi < len(firstTokens) && texec.In[pi] != firstTokens[pi] {
						add("permutation-changed-binding", fmt.Sprintf("schedule %d: parameter %s received token %d in the call and %d in its permuted twin", k, t.In[pi].Label, firstTokens[pi], texec.In[pi]))
					}
				}
			}
		}
		if transformed {
			ctx.MarkNontrivial(sh, sim)
		}
		finish(ctx, rt, sim)
	}
	return sortViolations(out)
}
