package props

import (
	"verif.local/harness/world"
	"verif.local/simrt"
)

// runThreads runs the operations of a multi-threaded world under the S2
// scheduler: one simulated caller thread per Op.Thread value, each executing
// its operations in order.
func runThreads(rt *world.Runtime, sim *simrt.Sim) {
	w := rt.W
	n := w.Threads
	var bodies []func()
	for t := 0; t < n; t++ {
		t := t
		bodies = append(bodies, func() {
			for i, o := range w.Ops {
				if o.Thread == t {
					rt.RunOp(i)
				}
			}
		})
	}
	sim.RunThreads(bodies)
}
