package props

import (
	"encoding/json"
	"os"
	"sync"

	"verif.local/harness/world"
	"verif.local/simrt"
)

// runThreads runs the operations of a multi-threaded world under the S2
// scheduler: one simulated caller thread per Op.Thread value, each executing
// its operations in order.
func runThreads(rt *world.Runtime, sim *simrt.Sim) {
	w := rt.W
	n := w.Threads
	// prelude: operations with Thread < 0 run on the main thread before the
	// caller threads start (e.g. the Redefine whose result the threads call)
	for i, o := range w.Ops {
		if o.Thread < 0 {
			rt.RunOp(i)
		}
	}
	var bodies []func()
	for t := 0; t < n; t++ {
		t := t
		bodies = append(bodies, func() {
			for i, o := range w.Ops {
				if o.Thread == t {
					rt.RunOp(i)
				}
			}
		})
	}
	sim.RunThreads(bodies, sim.SwarmThreadCfg())
}

type siteInfo struct {
	ID   int32  `json:"id"`
	Pkg  string `json:"pkg"`
	File string `json:"file"`
	Func string `json:"func"`
	Kind string `json:"kind"`
	Line int    `json:"line"`
	Expr string `json:"expr"`
}

var (
	sitesOnce sync.Once
	sitesByID map[int32]siteInfo
)

// siteOf resolves a woven site id through the table the weaver wrote
// (VERIF_SITES); unknown ids render as "site<N>".
func siteOf(id int32) siteInfo {
	sitesOnce.Do(func() {
		sitesByID = map[int32]siteInfo{}
		b, err := os.ReadFile(os.Getenv("VERIF_SITES"))
		if err != nil {
			return
		}
		var doc struct {
			Sites []siteInfo `json:"sites"`
		}
		if json.Unmarshal(b, &doc) == nil {
			for _, s := range doc.Sites {
				sitesByID[s.ID] = s
			}
		}
	})
	if s, ok := sitesByID[id]; ok {
		return s
	}
	return siteInfo{ID: id, Func: "site?", Expr: "?"}
}
