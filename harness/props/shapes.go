package props

import (
	"verif.local/harness/core"
	"verif.local/harness/world"
)

// shapeOf evaluates the fixed vocabulary of shape predicates on a (shrunk)
// world and returns the first that holds. Known findings are keyed by them.
func shapeOf(w world.World, v core.Violation) string {
	for _, sp := range shapePreds {
		if sp.pred(w, v) {
			return sp.name
		}
	}
	return "other"
}

type shapePred struct {
	name string
	pred func(w world.World, v core.Violation) bool
}

var shapePreds = []shapePred{}
