package props

import (
	"verif.local/harness/core"
	"verif.local/harness/world"
)

// shapeOf evaluates the fixed vocabulary of shape predicates on a (shrunk)
// world and returns the first that holds. Known findings are keyed by them.
func shapeOf(w world.World, v core.Violation) string {
	for _, sp := range shapePreds {
		if sp.pred(w, v) {
			return sp.name
		}
	}
	return "plain"
}

type shapePred struct {
	name string
	pred func(w world.World, v core.Violation) bool
}

// The vocabulary is deliberately small and coarse; predicates are tried in
// order. A known finding would be keyed by (property, class, site, shape).
var shapePreds = []shapePred{
	{"concurrent_callers", func(w world.World, v core.Violation) bool { return w.Threads > 1 }},
	{"malformed_option", func(w world.World, v core.Violation) bool {
		for _, a := range usedArgs(w) {
			switch a.Kind {
			case world.ArgNilOpt, world.ArgNilValue, world.ArgNonFunc, world.ArgNilFunc, world.ArgNilConv:
				return true
			}
		}
		return false
	}},
	{"generator", func(w world.World, v core.Violation) bool {
		for _, a := range usedArgs(w) {
			if a.Kind == world.ArgGen {
				return true
			}
		}
		return false
	}},
	{"redefine_history", func(w world.World, v core.Violation) bool {
		for _, o := range w.Ops {
			if o.Kind == world.OpRedefine {
				return true
			}
		}
		return false
	}},
	{"run_once_party", func(w world.World, v core.Violation) bool {
		for _, p := range w.Parties {
			if p.Once {
				return true
			}
		}
		return false
	}},
	{"built_party", func(w world.World, v core.Violation) bool {
		for _, p := range w.Parties {
			if p.InForm == world.FormBuilt {
				return true
			}
		}
		return false
	}},
	{"repeated_positional_type", func(w world.World, v core.Violation) bool {
		for _, p := range w.Parties {
			for _, ss := range [][]world.Slot{p.In, p.Out} {
				seen := map[int]bool{}
				for _, s := range ss {
					if s.Name == "" && s.Sub == "" && seen[s.Type] {
						return true
					}
					seen[s.Type] = true
				}
			}
		}
		return false
	}},
	{"multi_input_converter_cycle", func(w world.World, v core.Violation) bool {
		var convs []int
		multi := false
		for pi, p := range w.Parties {
			if len(p.Out) > 0 {
				convs = append(convs, pi)
				if len(p.In) > 1 {
					multi = true
				}
			}
		}
		return multi && hasConverterCycle(&w, convs)
	}},
	{"fault_plan", func(w world.World, v core.Violation) bool { return len(w.Faults) > 0 }},
	{"subtype_labels", func(w world.World, v core.Violation) bool {
		for _, p := range w.Parties {
			for _, s := range append(append([]world.Slot{}, p.In...), p.Out...) {
				if s.Sub != "" {
					return true
				}
			}
		}
		for _, a := range usedArgs(w) {
			if a.Label.Sub != "" {
				return true
			}
		}
		return false
	}},
	{"interface_types", func(w world.World, v core.Violation) bool {
		for _, p := range w.Parties {
			for _, s := range append(append([]world.Slot{}, p.In...), p.Out...) {
				if world.IsIface(s.Type) {
					return true
				}
			}
		}
		return false
	}},
	{"converter_chain", func(w world.World, v core.Violation) bool { return len(w.Parties) > 2 }},
	{"single_converter", func(w world.World, v core.Violation) bool { return len(w.Parties) == 2 }},
}

func usedArgs(w world.World) []world.ArgSpec {
	used := map[int]bool{}
	for _, o := range w.Ops {
		for _, a := range o.Args {
			used[a] = true
		}
	}
	for _, p := range w.Parties {
		for _, d := range p.Defaults {
			used[d] = true
		}
	}
	var out []world.ArgSpec
	for i, a := range w.Args {
		if used[i] {
			out = append(out, a)
		}
	}
	return out
}
