package props

import (
	"encoding/json"
	"fmt"
	"github.com/hashicorp/go-multierror"

	"verif.local/harness/core"
	"verif.local/harness/world"
	"verif.local/simrt"
)

// C04: a failing converter aborts the call, error verbatim.
type C04 struct{}

func (C04) ID() string { return "C04" }

func (C04) Plan(tier string) core.Plan {
	if tier == "thorough" {
		return core.Plan{Cases: 1500000, Schedules: 6}
	}
	return core.Plan{Cases: 100000, Schedules: 4}
}

func (C04) Info() core.Info {
	return core.Info{
		Rule:        "planned (derivable by construction) worlds with conversion chains of depth 1-4, diamonds, multi-input, struct-returning, built and run-once converters and noise; fault plan: 1-3 (party, k-th execution) entries return a fresh error value (now and then a typed-nil pointer of an error type, which is a non-nil error, or an unsatisfied-argument error of the converter's own making), including the target itself; 1-2 operations per history: Call, and sometimes the same resolution through Redefine + a call of the redefined function, or Convert. Oracle over the ordered party log of each call: the first failing execution's error value is what Call returns (pointer identity), nothing runs after it, the target does not run; no error => no execution failed; further fault kind: the converter's own one-entry error list; history: run-once target succeeds, then a converter fails in the next call. Non-trivial: a fault actually fired; distinct = distinct (world shape incl. fault plan, event-log hash)",
		Assumptions: []string{"injected errors are unique pointer values, so identity comparison is exact"},
		Probes:      []string{"fault_fired_conv_error", "c04_failed_at_depth_ge2", "c04_failed_multi_input", "c04_failed_struct_returning", "c04_failed_built", "c04_failed_once", "c04_target_error", "c04_redefined_calls", "c04_typed_nil_error", "c04_own_unsatisfied_error", "c04_own_error_list", "c04_failed_after_once_target_ran", "c04_no_error_calls", "s1_nonidentity_perms"},
		Real:        realComponents,
		Simulated:   simComponents,
	}
}

func (C04) Gen(r *simrt.RNG, tier string) core.Case {
	cfg := world.SwarmCfg(r)
	world.Deepen(&cfg, r, tier)
	cfg.MaxConvs = 2 + r.Intn(5)
	cfg.Gens = false
	w := world.GenPlanned(r, cfg)
	// make most converters able to fail
	for pi := range w.Parties {
		if w.Parties[pi].InForm != world.FormBuilt && r.Chance(3, 4) {
			w.Parties[pi].HasErr = true
		}
	}
	// an ordinary output of type error in front of the final error result: only the
	// final result is the function's error
	if r.Chance(1, 10) {
		pi := r.Intn(len(w.Parties))
		if p := &w.Parties[pi]; pi > 0 && p.HasErr && p.OutForm == world.FormPositional && p.InForm != world.FormBuilt && len(p.Out) > 0 {
			p.Out = append([]world.Slot{{Label: world.Label{Type: world.ErrIface}, Impl: world.ErrImpl}}, p.Out...)
		}
	}
	nf := 1 + r.Intn(3)
	for i := 0; i < nf; i++ {
		pi := r.Intn(len(w.Parties))
		if r.Chance(1, 8) {
			pi = 0
		}
		if !w.Parties[pi].HasErr {
			continue
		}
		kind := "conv_error"
		switch r.Intn(12) {
		case 0, 1:
			kind = "typed_nil_error" // a nil pointer of an error type: still a non-nil error value
		case 2:
			kind = "unsat_error" // the converter's own *ErrArgumentUnsatisfied
		case 3:
			kind = "multierror_single" // the converter's own one-entry error list
		}
		w.Faults = append(w.Faults, world.Fault{Kind: kind, Party: pi, Nth: 1 + r.Intn(2)})
	}
	if r.Chance(1, 8) && len(w.Parties) > 1 {
		// a run-once target that has already succeeded; a converter fails in a later call
		w.Parties[0].Once = true
		w.Faults = nil
		var cands []int
		for pi := 1; pi < len(w.Parties); pi++ {
			if w.Parties[pi].HasErr && !w.Parties[pi].Once {
				cands = append(cands, pi)
			}
		}
		if len(cands) > 0 {
			w.Faults = append(w.Faults, world.Fault{Kind: "conv_error", Party: cands[r.Intn(len(cands))], Nth: 2})
		}
		w.Ops = append(w.Ops, w.Ops[0])
		return RCase{W: w}
	}
	switch r.Intn(6) {
	case 0, 1:
		w.Ops = append(w.Ops, w.Ops[0])
	case 2:
		// the same resolution through a redefined function
		var sub []int
		for _, a := range w.Ops[0].Args {
			if k := w.Args[a].Kind; !(k == world.ArgNamed || k == world.ArgTyped) || r.Chance(1, 3) {
				sub = append(sub, a)
			}
		}
		w.Ops = []world.Op{{Kind: world.OpRedefine, Target: 0, Args: sub}, {Kind: world.OpCallRedef, Redef: 0}}
		if t := &w.Parties[0]; t.OutForm == world.FormPositional && t.InForm != world.FormBuilt && r.Chance(1, 3) {
			// the target's last ordinary result is of a concrete type that implements error;
			// sometimes it has no error result of its own at all
			t.Out = append(append([]world.Slot{}, t.Out...), world.Slot{Label: world.Label{Type: world.ErrImpl}})
			if r.Bool() {
				t.HasErr = false
			}
		}
	case 3:
		if len(w.Parties[0].In) > 0 {
			w.Ops = append(w.Ops, world.Op{Kind: world.OpConvert, Type: w.Parties[0].In[0].Type, Args: w.Ops[0].Args})
		}
	}
	return RCase{W: w}
}

func c04Valid(w world.World) bool {
	for _, a := range w.Args {
		switch a.Kind {
		case world.ArgNilOpt, world.ArgNonFunc, world.ArgNilConv, world.ArgFilterIn, world.ArgFilterOut:
			return false
		}
	}
	for _, f := range w.Faults {
		if f.Kind != "conv_error" && f.Kind != "typed_nil_error" && f.Kind != "unsat_error" && f.Kind != "multierror_single" {
			return false
		}
	}
	return true
}

func (C04) Decode(raw json.RawMessage) (core.Case, error) { return decodeRCase(raw) }
func (C04) Shrink(c core.Case) []core.Case                { return shrinkWorlds(c, c04Valid, false) }
func (C04) Shape(c core.Case, v core.Violation) string    { return shapeOf(c.(RCase).W, v) }

func (C04) Run(c core.Case, ctx *core.Ctx) []core.Violation {
	w := c.(RCase).W
	if !world.WellFormed(w, false) || !c04Valid(w) {
		return nil
	}
	sh := world.ShapeHash(w)
	var out []core.Violation
	add := func(class, detail string) {
		out = append(out, core.Violation{Class: class, Site: "Call", Detail: detail})
	}
	for k := 0; k < ctx.NumSchedules(); k++ {
		rt, sim := execWorld(&w, ctx, k)
		if rt.InstErr != nil {
			ctx.St.Inc("inst_rejected")
			finish(ctx, rt, sim)
			return nil
		}
		fired := false
		// errors of memoised failing executions stay observable in later calls
		onceErr := map[error]bool{}
		for oi, res := range rt.Results {
			if res == nil {
				continue
			}
			if w.Ops[oi].Kind == world.OpRedefine || res.ErrKind == "skipped" {
				continue // planning executes nothing (C09)
			}
			tgt := w.Ops[oi].Target
			switch w.Ops[oi].Kind {
			case world.OpCallRedef:
				tgt = w.Ops[w.Ops[oi].Redef].Target
				ctx.St.Inc("c04_redefined_calls")
			case world.OpConvert:
				tgt = -1 // the synthesized identity target is not a party
			}
			if !res.Returned {
				// neither the converter's error nor a result came back
				out = append(out, core.Violation{Class: res.PanicClass, Site: res.PanicSite, Detail: fmt.Sprintf("op %d did not return: %s", oi, trunc(res.PanicDetail))})
				continue
			}
			var first *world.ExecRec
			firstIdx := -1
			for i := res.LogFrom; i < res.LogTo; i++ {
				if rt.Log[i].Failed() {
					first = &rt.Log[i]
					firstIdx = i
					break
				}
			}
			if first != nil {
				fired = true
				if tgt >= 0 && w.Parties[tgt].Once && oi > 0 && rt.Results[0] != nil && rt.Results[0].Returned && rt.Results[0].Err == nil {
					ctx.St.Inc("c04_failed_after_once_target_ran")
				}
				if _, ok := first.ErrAny.(*multierror.Error); ok {
					ctx.St.Inc("c04_own_error_list")
				}
				p := rt.Parties[first.Party]
				if first.TypedNil {
					ctx.St.Inc("c04_typed_nil_error")
				}
				if first.ErrAny != nil {
					ctx.St.Inc("c04_own_unsatisfied_error")
				}
				if first.Party == tgt {
					ctx.St.Inc("c04_target_error")
				} else {
					// depth of the failing converter: longest chain of produced tokens feeding it
					if depthOf(rt, first) >= 2 {
						ctx.St.Inc("c04_failed_at_depth_ge2")
					}
					if len(p.In) > 1 {
						ctx.St.Inc("c04_failed_multi_input")
					}
					if p.OutForm == world.FormStruct || p.OutForm == world.FormPtrStruct {
						ctx.St.Inc("c04_failed_struct_returning")
					}
					if p.InForm == world.FormBuilt {
						ctx.St.Inc("c04_failed_built")
					}
					if p.Once {
						ctx.St.Inc("c04_failed_once")
						onceErr[first.ErrValue()] = true
					}
				}
				if res.Err == nil {
					add("converter-error-swallowed", fmt.Sprintf("op %d: party %d (%s) returned an error but Call reported none", oi, first.Party, p))
				} else if res.Err != first.ErrValue() {
					add("wrong-error-returned", fmt.Sprintf("op %d: party %d failed with %q but Call returned %q", oi, first.Party, first.ErrValue().Error(), trunc(res.Err.Error())))
				}
				if firstIdx != res.LogTo-1 {
					nx := rt.Log[firstIdx+1]
					add("execution-after-failure", fmt.Sprintf("op %d: party %d (%s) was executed after party %d had failed", oi, nx.Party, rt.Parties[nx.Party], first.Party))
				}
				if first.Party != tgt {
					for i := res.LogFrom; i < res.LogTo; i++ {
						if rt.Log[i].Party == tgt {
							add("target-executed-despite-failure", fmt.Sprintf("op %d: the target ran although converter %d failed", oi, first.Party))
						}
					}
				}
				continue
			}
			// no execution failed during this call
			switch res.ErrKind {
			case "":
				ctx.St.Inc("c04_no_error_calls")
			case "injected":
				if !onceErr[res.Err] {
					add("phantom-injected-error", fmt.Sprintf("op %d: Call returned %q although no execution of this call failed", oi, trunc(res.Err.Error())))
				}
			}
		}
		// a failure (also a memoised one) must never turn into made-up values downstream
		if fired {
			for _, on := range rt.Online {
				if on.Class == "invented-value" {
					add("zero-value-flowed-on-after-failure", on.Detail)
				}
			}
		}
		if fired {
			ctx.MarkNontrivial(sh, sim)
		}
		finish(ctx, rt, sim)
	}
	return sortViolations(out)
}

func trunc(s string) string {
	if len(s) > 160 {
		return s[:160] + "..."
	}
	return s
}

// depthOf is the length of the longest chain of produced values feeding exec.
func depthOf(rt *world.Runtime, rec *world.ExecRec) int {
	var d func(id uint64, guard int) int
	d = func(id uint64, guard int) int {
		if guard > 16 || id == 0 || id >= uint64(len(rt.Tokens)) {
			return 0
		}
		tk := rt.Tokens[id]
		if tk.Kind != world.TokProduced {
			return 0
		}
		m := 0
		for _, in := range tk.Inputs {
			if x := d(in, guard+1); x > m {
				m = x
			}
		}
		return m + 1
	}
	m := 0
	for _, in := range rec.In {
		if x := d(in, 0); x > m {
			m = x
		}
	}
	return m + 1
}
