// Package props holds the properties of the resolver (package argmapper).
// Each property is a generator bias, an oracle over the recorded party log and
// operation results, a precondition filter and shape predicates.
package props

import (
	"encoding/json"
	"fmt"
	"sort"

	"verif.local/harness/core"
	"verif.local/harness/world"
	"verif.local/simrt"
)

// RCase is the case type of every resolver property: an explicit world.
type RCase struct {
	W world.World `json:"world"`
}

func decodeRCase(raw json.RawMessage) (core.Case, error) {
	var c RCase
	if err := json.Unmarshal(raw, &c); err != nil {
		return nil, err
	}
	return c, nil
}

// shrinkWorlds applies the generic world shrinker and keeps well-formed,
// still-valid candidates.
func shrinkWorlds(c core.Case, valid func(world.World) bool, allowRepeat bool) []core.Case {
	w := c.(RCase).W
	var out []core.Case
	for _, cand := range world.ShrinkCandidates(w) {
		if !world.WellFormed(cand, allowRepeat) {
			continue
		}
		if valid != nil && !valid(cand) {
			continue
		}
		out = append(out, RCase{W: cand})
	}
	return out
}

// execWorld runs the whole history of w sequentially under schedule k.
func execWorld(w *world.World, ctx *core.Ctx, k int) (*world.Runtime, *simrt.Sim) {
	sim := ctx.Begin(k)
	rt := world.Instantiate(w, sim, ctx.St)
	if rt.InstErr != nil {
		return rt, sim
	}
	if w.Threads > 1 {
		runThreads(rt, sim)
	} else {
		for i := range w.Ops {
			rt.RunOp(i)
		}
	}
	return rt, sim
}

func finish(ctx *core.Ctx, rt *world.Runtime, sim *simrt.Sim) {
	for _, k := range []string{"conv_error", "nil_struct", "gen_decline", "gen_error", "typed_nil_error", "echo_error"} {
		if n := rt.FaultsFired[k]; n > 0 {
			ctx.St.Add("fault_fired_"+k, uint64(n))
		}
	}
	ctx.St.Add("party_execs", uint64(len(rt.Log)))
	ctx.St.Add("ops", uint64(len(rt.Results)))
	for _, r := range rt.Results {
		if r == nil {
			continue
		}
		switch {
		case !r.Returned:
			ctx.St.Inc("op_outcome_panicked")
		case r.ErrKind == "":
			ctx.St.Inc("op_outcome_ok")
		default:
			ctx.St.Inc("op_outcome_err_" + r.ErrKind)
		}
	}
	ctx.End(sim)
}

func sortViolations(v []core.Violation) []core.Violation {
	sort.SliceStable(v, func(i, j int) bool {
		if v[i].Class != v[j].Class {
			return v[i].Class < v[j].Class
		}
		return v[i].Detail < v[j].Detail
	})
	return v
}

func opSite(kind string) string {
	switch kind {
	case world.OpCall:
		return "Call"
	case world.OpConvert:
		return "Convert"
	case world.OpRedefine:
		return "Redefine"
	case world.OpCallRedef:
		return "RedefinedCall"
	}
	return kind
}

func describeWorld(w world.World) string {
	s := ""
	for i, p := range w.Parties {
		s += fmt.Sprintf("P%d=%s; ", i, p)
	}
	return s
}

var realComponents = []string{
	"package argmapper and internal/graph (woven copy of /repo's working tree, semantics re-checked by the repository's own tests on every run)",
	"reflect, go-multierror, go-hclog (level above Trace)",
}

var simComponents = []string{
	"S1: order of every map range in the library (seeded permutation of canonically sorted keys)",
	"S3: every target, converter, generator, filter and BuildFunc callback is a simulator-made party that logs its arguments, checks the online invariant and follows the fault plan",
	"S4: step and depth budgets per operation",
	"absent (nothing in the library to attach them to): simulated clock, network, disk, crash/restart",
}
