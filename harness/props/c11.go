package props

import (
	"encoding/json"
	"fmt"

	"verif.local/harness/core"
	"verif.local/harness/world"
	"verif.local/simrt"
)

// C11: a run-once function executes at most once; every later use sees that result.
type C11 struct{}

func (C11) ID() string { return "C11" }

func (C11) Plan(tier string) core.Plan {
	if tier == "thorough" {
		return core.Plan{Cases: 600000, Schedules: 8}
	}
	return core.Plan{Cases: 30000, Schedules: 4}
}

func (C11) Info() core.Info {
	return core.Info{
		Rule:        "worlds in which 1-2 run-once converters (positional, struct, pointer-struct and built output forms, with and without inputs) sit at a PRNG-chosen position of a conversion chain and feed 1-3 consumers within one call (diamonds). Sequential histories of 2-8 Call / Convert / Redefine / call-of-redefined operations on one or two targets with fresh option values per operation, fault once_first_fails (the first execution returns an error). Concurrent histories: 2-4 simulated caller threads (S2 baton scheduler, seeded preemption at every woven yield point incl. targeted preemption at single sites) whose operations need the same run-once converter. Oracle: the body executes at most once over the world's lifetime; every value a consumer receives from it stems from execution 1; after a failed first execution every operation that reports an injected error reports that same error value; run-once targets with and without parameters; FuncName after FuncOnce; an injected error must stem from this operation or from a run-once memo (history: a redefined use fails before the once target is reached). Non-trivial: the run-once party was needed by >=2 operations; distinct = distinct (world shape, event-log hash)",
		Assumptions: []string{"a use 'after the first' is judged through provenance: tokens minted by the run-once party carry its execution number"},
		Probes:      []string{"c11_once_needed_ge2_ops", "c11_diamond_within_call", "c11_first_exec_failed", "c11_cached_error_seen", "c11_errors_explained", "c11_ptr_struct_once", "c11_redefine_planned", "c11_concurrent_worlds", "c11_threads_overlapped", "s1_nonidentity_perms"},
		Real:        realComponents,
		Simulated:   append(append([]string{}, simComponents...), "S2: simulated caller threads run one at a time under a baton; the PRNG picks who runs at every woven yield point"),
	}
}

func genOnceWorld(r *simrt.RNG) world.World {
	perm := make([]int, world.NumStruct)
	for i := range perm {
		perm[i] = i
	}
	for i := len(perm) - 1; i > 0; i-- {
		j := r.Intn(i + 1)
		perm[i], perm[j] = perm[j], perm[i]
	}
	S, X, Y1, Y2, Z, Q := perm[0], perm[1], perm[2], perm[3], perm[4], perm[5]
	lt := func(t int) world.Slot { return world.Slot{Label: world.Label{Type: t}} }
	var w world.World
	// the run-once party: [S] -> X (or provider)
	once := world.Party{InForm: world.FormPositional, OutForm: world.FormPositional, Out: []world.Slot{lt(X)}, HasErr: r.Bool(), Once: true}
	if r.Chance(2, 3) {
		once.In = []world.Slot{lt(S)}
	}
	switch r.Intn(5) {
	case 0:
		once.OutForm = world.FormStruct
	case 1:
		once.OutForm = world.FormPtrStruct
	case 2:
		once.OutForm = world.FormStruct
		once.Out[0].Name = "a"
	case 3:
		once.InForm, once.OutForm, once.HasErr = world.FormBuilt, world.FormBuilt, true
	}
	if r.Chance(1, 4) && once.OutForm != world.FormPositional {
		once.Out = append(once.Out, lt(Q))
	}
	// target 0 needs Y1 [and Y2] (both derived from X): diamond within a call
	t0 := world.Party{InForm: world.FormPositional, OutForm: world.FormPositional, In: []world.Slot{lt(Y1)}, HasErr: r.Bool()}
	nc := 1 + r.Intn(3)
	if nc >= 2 {
		t0.In = append(t0.In, lt(Y2))
	}
	if nc >= 3 {
		t0.In = append(t0.In, lt(X))
	}
	w.Parties = append(w.Parties, t0, once)
	c1 := world.Party{InForm: world.FormPositional, OutForm: world.FormPositional, In: []world.Slot{lt(X)}, Out: []world.Slot{lt(Y1)}, HasErr: r.Bool()}
	c2 := world.Party{InForm: world.FormPositional, OutForm: world.FormPositional, In: []world.Slot{lt(X)}, Out: []world.Slot{lt(Y2)}, HasErr: r.Bool()}
	w.Parties = append(w.Parties, c1, c2)
	// second target needs Z <- X
	t1 := world.Party{InForm: world.FormStruct, OutForm: world.FormPositional, In: []world.Slot{lt(Z)}}
	c3 := world.Party{InForm: world.FormPositional, OutForm: world.FormPositional, In: []world.Slot{lt(X)}, Out: []world.Slot{lt(Z)}}
	w.Parties = append(w.Parties, t1, c3)
	tgt1 := 4
	convArgs := []int{}
	for _, pi := range []int{1, 2, 3, 5} {
		kind := world.ArgConvFunc
		if pi != 1 && r.Bool() {
			kind = world.ArgConv
		}
		w.Args = append(w.Args, world.ArgSpec{Kind: kind, Party: pi})
		convArgs = append(convArgs, len(w.Args)-1)
	}
	// a second run-once provider now and then, feeding S
	if len(once.In) > 0 && r.Chance(1, 3) {
		p2 := world.Party{InForm: world.FormPositional, OutForm: world.FormPositional, Out: []world.Slot{lt(S)}, Once: true, HasErr: r.Bool()}
		w.Parties = append(w.Parties, p2)
		w.Args = append(w.Args, world.ArgSpec{Kind: world.ArgConvFunc, Party: len(w.Parties) - 1})
		convArgs = append(convArgs, len(w.Args)-1)
	}
	nops := 2 + r.Intn(7)
	for i := 0; i < nops; i++ {
		args := append([]int{}, convArgs...)
		if len(once.In) > 0 && (len(w.Parties) == 6 || r.Bool()) {
			w.Args = append(w.Args, world.ArgSpec{Kind: world.ArgTyped, Label: world.Label{Type: S}})
			args = append(args, len(w.Args)-1)
		}
		for j := len(args) - 1; j > 0; j-- {
			k := r.Intn(j + 1)
			args[j], args[k] = args[k], args[j]
		}
		switch x := r.Intn(10); {
		case x < 5:
			w.Ops = append(w.Ops, world.Op{Kind: world.OpCall, Target: 0, Args: args})
		case x < 7:
			w.Ops = append(w.Ops, world.Op{Kind: world.OpCall, Target: tgt1, Args: args})
		case x < 8:
			w.Ops = append(w.Ops, world.Op{Kind: world.OpConvert, Type: []int{Y1, Z, X}[r.Intn(3)], Args: args})
		default:
			if r.Chance(2, 3) {
				// only the run-once party's own input type may be asked of the caller:
				// planning has to walk through the run-once party
				w.Args = append(w.Args, world.ArgSpec{Kind: world.ArgFilterIn, Filter: []int{S}, FilterStyle: r.Intn(3)})
				args = append(args, len(w.Args)-1)
			}
			w.Ops = append(w.Ops, world.Op{Kind: world.OpRedefine, Target: 0, Args: args})
			if r.Bool() {
				w.Ops = append(w.Ops, world.Op{Kind: world.OpCallRedef, Redef: len(w.Ops) - 1})
			}
		}
	}
	if once.HasErr && r.Chance(1, 4) {
		w.Faults = append(w.Faults, world.Fault{Kind: "conv_error", Party: 1, Nth: 1})
	}
	return w
}

func (C11) Gen(r *simrt.RNG, tier string) core.Case {
	w := genOnceWorld(r)
	// a run-once target (no outputs, or one output): called directly several times,
	// through Redefine, and through the redefined function
	if r.Chance(1, 4) {
		t := world.Party{InForm: world.FormPositional, OutForm: world.FormPositional, In: append([]world.Slot{}, w.Parties[4].In...), Once: true, HasErr: r.Bool()}
		if r.Bool() {
			t.Out = []world.Slot{{Label: world.Label{Type: 11}}}
		}
		if r.Chance(1, 3) {
			t.In = nil // nothing to resolve: the memo is all there is to consult
		}
		onceTargetFails := t.HasErr && r.Chance(1, 5)
		w.Parties = append(w.Parties, t)
		ti := len(w.Parties) - 1
		if onceTargetFails {
			// its single execution fails: every later use, direct or through a redefined
			// function, reports that error
			w.Faults = append(w.Faults, world.Fault{Kind: "conv_error", Party: ti, Nth: 1})
		}
		base := w.Ops[0].Args
		n := 2 + r.Intn(3)
		if len(t.In) > 0 && r.Chance(1, 4) {
			// the first use of the redefined function fails before the run-once target is
			// reached (an ordinary converter fails at its first execution); the target then
			// runs through a direct call; later uses of the redefined function must observe
			// that execution, not the failure of their own first attempt
			n = 0
			w.Parties[5].HasErr = true // the converter that makes the target's input
			w.Faults = []world.Fault{{Kind: "conv_error", Party: 5, Nth: 1}}
			w.Ops = nil
			w.Ops = append(w.Ops, world.Op{Kind: world.OpRedefine, Target: ti, Args: base})
			rd := len(w.Ops) - 1
			w.Ops = append(w.Ops, world.Op{Kind: world.OpCallRedef, Redef: rd}, world.Op{Kind: world.OpCall, Target: ti, Args: base}, world.Op{Kind: world.OpCallRedef, Redef: rd}, world.Op{Kind: world.OpCallRedef, Redef: rd})
			return RCase{W: w}
		}
		for i := 0; i < n; i++ {
			switch r.Intn(4) {
			case 0:
				w.Ops = append(w.Ops, world.Op{Kind: world.OpRedefine, Target: ti, Args: base})
				w.Ops = append(w.Ops, world.Op{Kind: world.OpCallRedef, Redef: len(w.Ops) - 1})
			default:
				w.Ops = append(w.Ops, world.Op{Kind: world.OpCall, Target: ti, Args: base})
			}
		}
	}
	if r.Chance(1, 2) {
		// concurrent variant: spread the operations over 2-4 caller threads
		w.Threads = 2 + r.Intn(3)
		var ops []world.Op
		for _, o := range w.Ops {
			if o.Kind == world.OpCallRedef || o.Kind == world.OpRedefine {
				continue
			}
			o.Thread = r.Intn(w.Threads)
			ops = append(ops, o)
		}
		if len(ops) < 2 {
			w.Threads = 0
		} else {
			// make sure at least two threads have work
			ops[0].Thread, ops[1].Thread = 0, 1
			w.Ops = ops
		}
	}
	return RCase{W: w}
}

func c11Valid(w world.World) bool {
	once := false
	for _, p := range w.Parties {
		once = once || p.Once
	}
	for _, f := range w.Faults {
		if f.Kind != "conv_error" {
			return false
		}
	}
	for _, a := range w.Args {
		switch a.Kind {
		case world.ArgNamed, world.ArgTyped, world.ArgConv, world.ArgConvFunc, world.ArgFilterIn:
		default:
			return false
		}
	}
	return once
}

func (C11) Decode(raw json.RawMessage) (core.Case, error) { return decodeRCase(raw) }
func (C11) Shrink(c core.Case) []core.Case                { return shrinkWorlds(c, c11Valid, false) }
func (C11) Shape(c core.Case, v core.Violation) string    { return shapeOf(c.(RCase).W, v) }

func (C11) Run(c core.Case, ctx *core.Ctx) []core.Violation {
	w := c.(RCase).W
	if !world.WellFormed(w, false) || !c11Valid(w) {
		return nil
	}
	sh := world.ShapeHash(w)
	var out []core.Violation
	add := func(class, site, detail string) {
		out = append(out, core.Violation{Class: class, Site: site, Detail: detail})
	}
	for k := 0; k < ctx.NumSchedules(); k++ {
		rt, sim := execWorld(&w, ctx, k)
		if rt.InstErr != nil {
			ctx.St.Inc("inst_rejected")
			finish(ctx, rt, sim)
			return nil
		}
		if w.Threads > 1 {
			ctx.St.Inc("c11_concurrent_worlds")
			if sim.Switches > 0 {
				ctx.St.Inc("c11_threads_overlapped")
			}
		}
		needed := false
		for pi, p := range rt.Parties {
			if !p.Once {
				continue
			}
			if p.OutForm == world.FormPtrStruct {
				ctx.St.Inc("c11_ptr_struct_once")
			}
			n := rt.ExecCount(pi)
			if n > 1 {
				site := "Call"
				if w.Threads > 1 {
					site = "Call(concurrent)"
				}
				add("once-executed-more-than-once", site, fmt.Sprintf("schedule %d: run-once party %d (%s) executed %d times", k, pi, p, n))
			}
			// consumers: which operations received a value minted by this party
			opsUsing := map[int]bool{}
			var firstErr *world.SimErr
			for _, rec := range rt.Log {
				if rec.Party == pi && rec.N == 1 && rec.Err != nil {
					firstErr = rec.Err
				}
				perOp := 0
				for _, id := range rec.In {
					if id == 0 || id >= uint64(len(rt.Tokens)) {
						continue
					}
					tk := rt.Tokens[id]
					if tk.Kind == world.TokProduced && tk.Party == pi {
						opsUsing[rec.Op] = true
						perOp++
						if tk.Exec != 1 {
							add("value-from-later-execution-of-once", "Call", fmt.Sprintf("schedule %d: party %d received a value minted by execution %d of run-once party %d", k, rec.Party, tk.Exec, pi))
						}
					}
				}
			}
			if len(opsUsing) >= 2 {
				needed = true
				ctx.St.Inc("c11_once_needed_ge2_ops")
			}
			// diamond: >=2 distinct consumers within one op
			for op := range opsUsing { // order-insensitive: counts
				cons := map[int]bool{}
				for _, rec := range rt.Log {
					if rec.Op != op {
						continue
					}
					for _, id := range rec.In {
						if id != 0 && id < uint64(len(rt.Tokens)) && rt.Tokens[id].Kind == world.TokProduced && rt.Tokens[id].Party == pi {
							cons[rec.Party] = true
						}
					}
				}
				if len(cons) >= 2 {
					ctx.St.Inc("c11_diamond_within_call")
				}
			}
			if firstErr != nil {
				ctx.St.Inc("c11_first_exec_failed")
				// uses of a run-once *target* after its failed execution report that error
				failedAt := -1
				for _, rec := range rt.Log {
					if rec.Party == pi && rec.N == 1 {
						failedAt = rec.Op
					}
				}
				for oi, res := range rt.Results {
					if res == nil || !res.Returned || oi <= failedAt || w.Threads > 1 {
						continue
					}
					tgt := -1
					switch w.Ops[oi].Kind {
					case world.OpCall:
						tgt = w.Ops[oi].Target
					case world.OpCallRedef:
						if res.ErrKind != "skipped" {
							tgt = w.Ops[w.Ops[oi].Redef].Target
						}
					}
					if tgt == pi && res.Err == nil {
						add("once-error-not-replayed", opSite(w.Ops[oi].Kind), fmt.Sprintf("schedule %d op %d: the single execution of run-once target %d failed with %q, this later use reports success", k, oi, pi, firstErr.Error()))
					}
				}
				for oi, res := range rt.Results {
					if res == nil || !res.Returned || res.ErrKind != "injected" {
						continue
					}
					// (an ordinary party failing within this very operation is judged below)
					ownFailure := false
					for i := res.LogFrom; i < res.LogTo; i++ {
						if rt.Log[i].Failed() && rt.Log[i].Party != pi {
							ownFailure = true
						}
					}
					if ownFailure {
						continue
					}
					// (the memoised failure of another run-once party is as good an answer)
					otherOnce := false
					for _, rec := range rt.Log {
						if rec.N == 1 && rec.Err != nil && rec.Party != pi && rt.Parties[rec.Party].Once && error(rec.Err) == res.Err {
							otherOnce = true
						}
					}
					if otherOnce {
						continue
					}
					if res.Err != error(firstErr) {
						add("once-error-not-replayed", opSite(w.Ops[oi].Kind), fmt.Sprintf("schedule %d op %d: the first execution of run-once party %d failed with %q, this operation reports %q", k, oi, pi, firstErr.Error(), trunc(res.Err.Error())))
					} else if res.LogTo > res.LogFrom || oi > 0 {
						ctx.St.Inc("c11_cached_error_seen")
					}
				}
			}
		}
		// an injected error comes from an execution that failed during this operation or
		// is the memoised failure of a run-once party's first execution: nothing else is
		// remembered from one use to the next
		for oi, res := range rt.Results {
			if res == nil || !res.Returned || res.ErrKind != "injected" {
				continue
			}
			explained := false
			for i := res.LogFrom; i < res.LogTo; i++ {
				if rt.Log[i].Failed() && rt.Log[i].ErrValue() == res.Err {
					explained = true
				}
			}
			for _, rec := range rt.Log {
				if rec.N == 1 && rec.Err != nil && rt.Parties[rec.Party].Once && error(rec.Err) == res.Err {
					explained = true
				}
			}
			if !explained {
				add("stale-error-of-an-earlier-use", opSite(w.Ops[oi].Kind), fmt.Sprintf("schedule %d op %d: reports %q, which no execution of this operation returned and which is not the memoised result of a run-once function", k, oi, trunc(res.Err.Error())))
			} else if oi > 0 {
				ctx.St.Inc("c11_errors_explained")
			}
		}
		for oi, res := range rt.Results {
			if res != nil && !res.Returned {
				// a later use that blows up has not observed the first execution's outputs
				out = append(out, core.Violation{Class: res.PanicClass, Site: res.PanicSite, Detail: fmt.Sprintf("op %d (%s) did not return: %s", oi, w.Ops[oi].Kind, trunc(res.PanicDetail))})
			}
		}
		// a use after the first must observe the outputs of the first execution:
		// never a value nobody produced
		for _, on := range rt.Online {
			if on.Class == "invented-value" {
				out = append(out, core.Violation{Class: "once-use-observed-invented-value", Site: "Call", Detail: on.Detail})
			}
		}
		for oi, res := range rt.Results {
			if res != nil && w.Ops[oi].Kind == world.OpRedefine && res.Returned && res.Err == nil {
				ctx.St.Inc("c11_redefine_planned")
			}
		}
		if needed {
			ctx.MarkNontrivial(sh, sim)
		}
		finish(ctx, rt, sim)
	}
	return sortViolations(out)
}
