package props

import (
	"encoding/json"
	"fmt"

	"verif.local/harness/core"
	"verif.local/harness/model"
	"verif.local/harness/world"
	"verif.local/simrt"
)

// C08: Redefine yields a callable function over the missing, permitted inputs.
type C08 struct{}

func (C08) ID() string { return "C08" }

func (C08) Plan(tier string) core.Plan {
	if tier == "thorough" {
		return core.Plan{Cases: 800000, Schedules: 4}
	}
	return core.Plan{Cases: 80000, Schedules: 3}
}

func (C08) Info() core.Info {
	return core.Info{
		Rule:        "scope of the statement: converters with <=1 input (providers, chains of depth 1-4, cycles, bidirectional pairs), no subtype labels, every name denotes one type; targets with 1-3 parameters and 0-2 outputs; a PRNG-chosen subset of the needed values is supplied (named and type-only), some of them as NewFunc defaults of the target; sometimes two redefined functions are made from option lists sharing one backing array; input filters are PRNG-chosen subsets of the type pool (sometimes the unnamed type []uint64 while a parameter has the defined type B0 built on it) (raw func, FilterOr(FilterType...), FilterAnd), output filters likewise; history = Redefine, call of the result with a fresh token (sometimes the zero value) per declared input, sometimes a second Redefine with a different filter (filter flip) and its call. Oracle per successful Redefine: every declared input passes that call's input filter and is not a supplied value; the call of the result does not fail for lack of an argument, runs the original target once with C01-valid arguments and returns the target's own products; Redefine fails iff an output is rejected by the output filter (checked in the direction stated) and must succeed when every target parameter passes the input filter; targets with struct results (output filter judges the fields, including an error-typed field), interface-typed parameters with converters to an implementing type, filters made from an empty list. Non-trivial: >=1 converter and an input filter; distinct = distinct (world shape, event-log hash)",
		Assumptions: []string{"a declared input 'is a supplied value' when its name and type (named) or its type (type-only) equal a supplied label"},
		Probes:      []string{"c08_redefine_ok", "c08_redefine_failed", "c08_calls_of_redefined", "c08_chain_ge2", "c08_filter_excludes_param", "c08_output_filter_rejects", "c08_must_succeed", "c08_typed_supplied", "c08_zero_valued_inputs", "c08_target_defaults", "c08_shared_option_slice", "c08_defined_vs_unnamed_type_filter", "s1_nonidentity_perms"},
		Real:        realComponents,
		Simulated:   simComponents,
	}
}

func (C08) Gen(r *simrt.RNG, tier string) core.Case {
	perm := make([]int, world.NumStruct)
	for i := range perm {
		perm[i] = i
	}
	for i := len(perm) - 1; i > 0; i-- {
		j := r.Intn(i + 1)
		perm[i], perm[j] = perm[j], perm[i]
	}
	nt := 3 + r.Intn(5)
	univ := perm[:nt]
	if r.Chance(1, 5) {
		// a defined slice type in play; filters may name the unnamed type under it
		univ = append([]int{world.SliceDef}, univ...)
		nt++
	}
	// one type per name
	nameType := map[string]int{}
	nameFor := func(t int) string {
		n := world.Names[t%len(world.Names)]
		if old, ok := nameType[n]; ok && old != t {
			return ""
		}
		nameType[n] = t
		return n
	}
	var w world.World
	form := []int{world.FormStruct, world.FormPositional, world.FormPtrStruct}[r.Intn(3)]
	t := world.Party{InForm: form, OutForm: world.FormPositional, HasErr: r.Bool()}
	np := 1 + r.Intn(3)
	for i := 0; i < np; i++ {
		s := world.Slot{Label: world.Label{Type: univ[i%nt]}}
		if form != world.FormPositional && r.Bool() {
			s.Name = nameFor(s.Type)
		}
		dup := false
		for _, o := range t.In {
			if o.Type == s.Type {
				dup = true
			}
		}
		if !dup {
			t.In = append(t.In, s)
		}
	}
	// an interface-typed parameter, satisfiable through a converter that makes an
	// implementing type (the planner must still demand that converter's own input)
	ifaceImpl := -1
	if r.Chance(1, 5) {
		j := r.Intn(len(t.In))
		I := world.IfaceBase + r.Intn(3)
		var impls []int
		for _, x := range world.Implementors(I) {
			if x < world.NumStruct {
				impls = append(impls, x)
			}
		}
		clash := false
		for _, s := range t.In {
			if world.Implements(s.Type, I) {
				clash = true
			}
		}
		if len(impls) > 0 && !clash {
			ifaceImpl = impls[r.Intn(len(impls))]
			t.In[j].Type = I
			if t.In[j].Name != "" {
				t.In[j].Name = []string{"alpha", "beta"}[r.Intn(2)]
			}
		}
	}
	no := r.Intn(3)
	for i := 0; i < no; i++ {
		ty := perm[(nt+i)%world.NumStruct]
		dup := false
		for _, o := range t.Out {
			if o.Type == ty {
				dup = true
			}
		}
		if !dup {
			t.Out = append(t.Out, world.Slot{Label: world.Label{Type: ty}})
		}
	}
	if len(t.Out) > 0 && r.Chance(1, 4) {
		// outputs declared as the fields of a result struct: the output filter judges
		// the fields, not the struct
		t.OutForm = []int{world.FormStruct, world.FormPtrStruct}[r.Intn(2)]
		for i := range t.Out {
			if r.Bool() {
				t.Out[i].Name = nameFor(t.Out[i].Type)
			}
		}
		if r.Chance(1, 3) {
			// a field of type error is an output like any other (only a trailing error
			// result of the function itself is not)
			t.Out = append(t.Out, world.Slot{Label: world.Label{Name: "fail", Type: world.ErrIface}, Impl: world.ErrImpl})
		}
	}
	w.Parties = append(w.Parties, t)
	var args []int
	addArg := func(a world.ArgSpec) { w.Args = append(w.Args, a); args = append(args, len(w.Args)-1) }
	// single-input converters: chains towards the parameters, reverse edges, providers
	nc := r.Intn(7)
	for i := 0; i < nc; i++ {
		from, to := univ[r.Intn(nt)], univ[r.Intn(nt)]
		if from == to {
			continue
		}
		c := world.Party{InForm: world.FormPositional, OutForm: world.FormPositional, In: []world.Slot{{Label: world.Label{Type: from}}}, Out: []world.Slot{{Label: world.Label{Type: to}}}, HasErr: r.Bool()}
		switch r.Intn(6) {
		case 0:
			c.In = nil // provider
		case 1:
			c.InForm = world.FormStruct
			c.In[0].Name = nameFor(from)
		case 2:
			c.OutForm = world.FormStruct
			c.Out[0].Name = nameFor(to)
		}
		w.Parties = append(w.Parties, c)
		kind := world.ArgConv
		if r.Bool() {
			kind = world.ArgConvFunc
		}
		addArg(world.ArgSpec{Kind: kind, Party: len(w.Parties) - 1})
		if r.Chance(1, 4) { // bidirectional pair
			rev := world.Party{InForm: world.FormPositional, OutForm: world.FormPositional, In: []world.Slot{{Label: world.Label{Type: to}}}, Out: []world.Slot{{Label: world.Label{Type: from}}}}
			w.Parties = append(w.Parties, rev)
			addArg(world.ArgSpec{Kind: world.ArgConv, Party: len(w.Parties) - 1})
		}
	}
	if ifaceImpl >= 0 {
		from := univ[r.Intn(nt)]
		if from != ifaceImpl && from != world.SliceDef {
			w.Parties = append(w.Parties, world.Party{InForm: world.FormPositional, OutForm: world.FormPositional, In: []world.Slot{{Label: world.Label{Type: from}}}, Out: []world.Slot{{Label: world.Label{Type: ifaceImpl}}}, HasErr: r.Bool()})
			addArg(world.ArgSpec{Kind: world.ArgConv, Party: len(w.Parties) - 1})
		}
	}
	// an explicit chain of 2-4 single-input converters ending at a parameter
	if r.Chance(2, 3) && len(t.In) > 0 {
		end := t.In[r.Intn(len(t.In))].Type
		l := 2 + r.Intn(3)
		cur := end
		for i := 0; i < l; i++ {
			from := perm[(nt+3+i)%world.NumStruct]
			if from == cur {
				break
			}
			c := world.Party{InForm: world.FormPositional, OutForm: world.FormPositional, In: []world.Slot{{Label: world.Label{Type: from}}}, Out: []world.Slot{{Label: world.Label{Type: cur}}}, HasErr: r.Bool()}
			w.Parties = append(w.Parties, c)
			addArg(world.ArgSpec{Kind: world.ArgConv, Party: len(w.Parties) - 1})
			cur = from
		}
	}
	// supplied values
	ns := r.Intn(3)
	for i := 0; i < ns; i++ {
		ty := univ[r.Intn(nt)]
		if r.Bool() {
			if n := nameFor(ty); n != "" {
				addArg(world.ArgSpec{Kind: world.ArgNamed, Label: world.Label{Name: n, Type: ty}, Spell: n})
				continue
			}
		}
		addArg(world.ArgSpec{Kind: world.ArgTyped, Label: world.Label{Type: ty}})
	}
	mkFilter := func(kind string) int {
		a := world.ArgSpec{Kind: kind, FilterStyle: r.Intn(3)}
		seen := map[int]bool{}
		if kind == world.ArgFilterIn && r.Chance(1, 3) {
			for _, s := range t.In { // every parameter permitted: Redefine must succeed
				if !seen[s.Type] {
					seen[s.Type] = true
					a.Filter = append(a.Filter, s.Type)
				}
			}
		}
		if ifaceImpl >= 0 && r.Chance(1, 2) && !seen[ifaceImpl] {
			seen[ifaceImpl] = true
			a.Filter = append(a.Filter, ifaceImpl)
		}
		if univ[0] == world.SliceDef && r.Chance(1, 2) {
			seen[world.SliceRaw] = true
			a.Filter = append(a.Filter, world.SliceRaw) // permits []uint64, not the defined type B0
		}
		n := r.Intn(5) // 0: a filter made from an empty list of types permits nothing
		for i := 0; i < n; i++ {
			ty := perm[r.Intn(len(perm))]
			if !seen[ty] {
				seen[ty] = true
				a.Filter = append(a.Filter, ty)
			}
		}
		w.Args = append(w.Args, a)
		return len(w.Args) - 1
	}
	for i := len(args) - 1; i > 0; i-- {
		j := r.Intn(i + 1)
		args[i], args[j] = args[j], args[i]
	}
	// some supplied values are attached to the target by NewFunc instead
	if r.Chance(1, 4) {
		var keep []int
		for _, a := range args {
			if k := w.Args[a].Kind; (k == world.ArgNamed || k == world.ArgTyped) && r.Bool() {
				w.Parties[0].Defaults = append(w.Parties[0].Defaults, a)
			} else {
				keep = append(keep, a)
			}
		}
		args = keep
	}
	// two redefined functions whose option lists were carved out of one slice:
	// Redefine(base...), Redefine(append(base, extra)...), call the first, call the second
	if r.Chance(1, 6) && len(args) > 0 {
		extra := -1
		for ai, a := range w.Args {
			if (a.Kind == world.ArgNamed || a.Kind == world.ArgTyped) && !containsInt(args, ai) && !containsInt(w.Parties[0].Defaults, ai) {
				extra = ai
			}
		}
		if extra < 0 {
			ty := univ[r.Intn(nt)]
			w.Args = append(w.Args, world.ArgSpec{Kind: world.ArgTyped, Label: world.Label{Type: ty}})
			extra = len(w.Args) - 1
		}
		w.Ops = append(w.Ops,
			world.Op{Kind: world.OpRedefine, Target: 0, Args: append([]int{}, args...)},
			world.Op{Kind: world.OpRedefine, Target: 0, Args: append(append([]int{}, args...), extra), ShareArgsWith: 1},
			world.Op{Kind: world.OpCallRedef, Redef: 0},
			world.Op{Kind: world.OpCallRedef, Redef: 1})
		return RCase{W: w}
	}
	pairs := 1
	if r.Chance(1, 4) {
		pairs = 2
	}
	for p := 0; p < pairs; p++ {
		ra := append([]int{}, args...)
		if r.Chance(4, 5) {
			ra = append(ra, mkFilter(world.ArgFilterIn))
		}
		if r.Chance(1, 4) || (t.OutForm != world.FormPositional && r.Bool()) {
			ra = append(ra, mkFilter(world.ArgFilterOut))
		}
		w.Ops = append(w.Ops, world.Op{Kind: world.OpRedefine, Target: 0, Args: ra})
		w.Ops = append(w.Ops, world.Op{Kind: world.OpCallRedef, Redef: len(w.Ops) - 1, ZeroInputs: r.Chance(1, 5)})
	}
	return RCase{W: w}
}

func c08Valid(w world.World) bool {
	if len(w.Faults) != 0 || len(w.Ops) == 0 {
		return false
	}
	nameType := map[string]int{}
	okLabel := func(l world.Label) bool {
		if l.Sub != "" || world.IsIface(l.Type) || (l.Type >= world.PtrBase && l.Type != world.SliceDef) {
			return false
		}
		if l.Name != "" {
			if t, ok := nameType[l.Name]; ok && t != l.Type {
				return false
			}
			nameType[l.Name] = l.Type
		}
		return true
	}
	for pi, p := range w.Parties {
		if p.Once || p.InForm == world.FormBuilt || (pi != 0 && len(p.Defaults) != 0) {
			return false
		}
		if pi != 0 && len(p.In) > 1 {
			return false
		}
		for _, s := range p.In {
			if pi == 0 && world.IsIface(s.Type) && s.Type != world.ErrIface && s.Sub == "" {
				if s.Name != "" {
					if t, ok := nameType[s.Name]; ok && t != s.Type {
						return false
					}
					nameType[s.Name] = s.Type
				}
				continue
			}
			if !okLabel(s.Label) {
				return false
			}
		}
		for _, s := range p.Out {
			if pi == 0 && s.Type == world.ErrIface && s.Sub == "" && p.OutForm != world.FormPositional {
				continue
			}
			if !okLabel(s.Label) {
				return false
			}
		}
	}
	for _, a := range w.Args {
		switch a.Kind {
		case world.ArgNamed, world.ArgTyped:
			if !okLabel(a.Label) {
				return false
			}
		case world.ArgConv, world.ArgConvFunc, world.ArgFilterIn, world.ArgFilterOut:
		default:
			return false
		}
	}
	for i, o := range w.Ops {
		switch o.Kind {
		case world.OpRedefine:
			if o.Target != 0 {
				return false
			}
		case world.OpCallRedef:
			if o.Redef >= i {
				return false
			}
		default:
			return false
		}
	}
	return len(w.Parties[0].In) > 0
}

func (C08) Decode(raw json.RawMessage) (core.Case, error) { return decodeRCase(raw) }
func (C08) Shrink(c core.Case) []core.Case                { return shrinkWorlds(c, c08Valid, false) }
func (C08) Shape(c core.Case, v core.Violation) string    { return shapeOf(c.(RCase).W, v) }

func (C08) Run(c core.Case, ctx *core.Ctx) []core.Violation {
	w := c.(RCase).W
	if !world.WellFormed(w, false) || !c08Valid(w) {
		return nil
	}
	sh := world.ShapeHash(w)
	t := w.Parties[0]
	var out []core.Violation
	add := func(class, site, detail string) {
		out = append(out, core.Violation{Class: class, Site: site, Detail: detail})
	}
	for k := 0; k < ctx.NumSchedules(); k++ {
		rt, sim := execWorld(&w, ctx, k)
		if rt.InstErr != nil {
			ctx.St.Inc("inst_rejected")
			finish(ctx, rt, sim)
			return nil
		}
		nontrivial := false
		for oi, res := range rt.Results {
			if res == nil {
				continue
			}
			o := w.Ops[oi]
			if !res.Returned {
				// a Redefine or redefined call that does not return has neither
				// succeeded nor reported an error
				add(res.PanicClass, res.PanicSite, fmt.Sprintf("op %d (%s) did not return: %s", oi, o.Kind, trunc(res.PanicDetail)))
				continue
			}
			switch o.Kind {
			case world.OpRedefine:
				view := model.ViewOf(&w, oi)
				if len(view.Convs) > 0 && view.FilterIn != nil {
					nontrivial = true
				}
				for _, l := range view.Supplied {
					if l.Name == "" {
						ctx.St.Inc("c08_typed_supplied")
						break
					}
				}
				if len(t.Defaults) > 0 {
					ctx.St.Inc("c08_target_defaults")
				}
				if o.ShareArgsWith != 0 {
					ctx.St.Inc("c08_shared_option_slice")
				}
				outRejected := false
				if view.FilterOut != nil {
					for _, s := range t.Out {
						if !world.FilterAccepts(*view.FilterOut, s.Type) {
							outRejected = true
						}
					}
				}
				paramsPermitted := true
				if view.FilterIn != nil {
					for _, ft := range view.FilterIn.Filter {
						if ft == world.SliceRaw {
							ctx.St.Inc("c08_defined_vs_unnamed_type_filter")
						}
					}
					for _, s := range t.In {
						if !world.FilterAccepts(*view.FilterIn, s.Type) {
							paramsPermitted = false
							ctx.St.Inc("c08_filter_excludes_param")
						}
					}
				}
				if outRejected {
					ctx.St.Inc("c08_output_filter_rejects")
					if res.Err == nil {
						add("redefine-ignored-output-filter", "Redefine", fmt.Sprintf("op %d: an output of the target is rejected by the output filter but Redefine succeeded", oi))
					}
					continue
				}
				if paramsPermitted {
					ctx.St.Inc("c08_must_succeed")
					if res.Err != nil {
						add("redefine-failed-although-parameters-permitted", "Redefine", fmt.Sprintf("op %d: every target parameter passes the input filter, yet Redefine failed (%s): %s", oi, res.ErrKind, trunc(res.Err.Error())))
					}
				}
				if res.Err != nil {
					ctx.St.Inc("c08_redefine_failed")
					continue
				}
				ctx.St.Inc("c08_redefine_ok")
				for _, in := range res.RedefIn {
					if view.FilterIn != nil && !world.FilterAccepts(*view.FilterIn, in.Type) {
						add("redefine-input-violates-filter", "Redefine", fmt.Sprintf("op %d: the redefined function declares input %s, which the input filter %v rejects", oi, in, view.FilterIn.Filter))
					}
					for _, l := range view.Supplied {
						if l.Type == in.Type && l.Name == in.Name {
							add("redefine-demands-supplied-value", "Redefine", fmt.Sprintf("op %d: the redefined function declares input %s although that value was supplied to Redefine", oi, in))
						}
					}
				}
			case world.OpCallRedef:
				if res.ErrKind == "skipped" {
					continue
				}
				ctx.St.Inc("c08_calls_of_redefined")
				if o.ZeroInputs && len(rt.Results[o.Redef].RedefIn) > 0 {
					ctx.St.Inc("c08_zero_valued_inputs")
				}
				if res.ErrKind == "unsatisfied" || res.ErrKind == "bug" {
					add("redefined-call-lacks-argument", "RedefinedCall", fmt.Sprintf("op %d: a value was given for each declared input %v, yet the call failed for lack of an argument (%s): %s", oi, rt.Results[o.Redef].RedefIn, res.ErrKind, trunc(res.Err.Error())))
					continue
				}
				if res.Err != nil {
					add("redefined-call-failed", "RedefinedCall", fmt.Sprintf("op %d: unexpected error kind %s: %s", oi, res.ErrKind, trunc(res.Err.Error())))
					continue
				}
				var texec []*world.ExecRec
				for i := res.LogFrom; i < res.LogTo; i++ {
					if rt.Log[i].Party == 0 {
						texec = append(texec, &rt.Log[i])
					}
					if depthOf(rt, &rt.Log[i]) >= 3 {
						ctx.St.Inc("c08_chain_ge2")
					}
				}
				if len(texec) != 1 {
					add("redefined-call-target-executions", "RedefinedCall", fmt.Sprintf("op %d: the original target ran %d times", oi, len(texec)))
					continue
				}
				for _, on := range rt.Online {
					if on.Op == oi {
						add("redefined-call-"+on.Class, "RedefinedCall", on.Detail)
					}
				}
				if len(res.Outs) != len(texec[0].Out) {
					add("redefined-call-wrong-results", "RedefinedCall", fmt.Sprintf("op %d: %d results, the target produced %d", oi, len(res.Outs), len(texec[0].Out)))
				} else {
					for i := range res.Outs {
						if res.Outs[i] != texec[0].Out[i] {
							add("redefined-call-wrong-results", "RedefinedCall", fmt.Sprintf("op %d: result %d is token %d, the target produced %d", oi, i, res.Outs[i], texec[0].Out[i]))
						}
					}
				}
			}
		}
		if nontrivial {
			ctx.MarkNontrivial(sh, sim)
		}
		finish(ctx, rt, sim)
	}
	return sortViolations(out)
}
