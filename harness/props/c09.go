package props

import (
	"encoding/json"
	"fmt"
	"strings"

	"verif.local/harness/core"
	"verif.local/harness/world"
	"verif.local/simrt"
)

// C09: Redefine is pure planning.
type C09 struct{}

func (C09) ID() string { return "C09" }

func (C09) Plan(tier string) core.Plan {
	if tier == "thorough" {
		return core.Plan{Cases: 800000, Schedules: 4}
	}
	return core.Plan{Cases: 70000, Schedules: 3}
}

func (C09) Info() core.Info {
	return core.Info{
		Rule:        "histories of 2-6 operations mixing Redefine (random input/output filters, random subsets of the options) and Call on the same *Func objects and the same option values: targets and converters in every form incl. run-once, built and generator-offered converters. Each history is executed, then its twin (the Redefine operations deleted) on fresh parties; both reseed the schedule PRNG per operation with the operation's stable id, so a Call sees the same stream of iteration orders in both. Oracle: no party executes while a Redefine is being computed (generators and filters may run); every Call has the same outcome kind and the same id-independent provenance of the values the target received as in the twin; per-party execution counts agree; the values visible in every function's Input()/Output() sets are the same before and after a Redefine. Non-trivial: a Redefine precedes a Call and >=1 converter exists; distinct = distinct (world shape, event-log hash)",
		Assumptions: []string{"calls of the redefined functions themselves are excluded here (they are real uses of the target; C08 covers them)"},
		Probes:      []string{"c09_redefine_ops", "c09_redefine_ok", "c09_calls_compared", "c09_once_worlds", "c09_built_worlds", "c09_call_after_redefine_used_converter", "s1_nonidentity_perms"},
		Real:        realComponents,
		Simulated:   simComponents,
	}
}

func randomFilter(r *simrt.RNG, kind string) world.ArgSpec {
	a := world.ArgSpec{Kind: kind, FilterStyle: r.Intn(3)}
	n := 1 + r.Intn(6)
	seen := map[int]bool{}
	for i := 0; i < n; i++ {
		t := r.Intn(world.NumTypes)
		if !seen[t] {
			seen[t] = true
			a.Filter = append(a.Filter, t)
		}
	}
	return a
}

func (C09) Gen(r *simrt.RNG, tier string) core.Case {
	cfg := world.SwarmCfg(r)
	world.Deepen(&cfg, r, tier)
	cfg.Once = r.Chance(1, 2)
	cfg.Built = r.Chance(1, 3)
	var w world.World
	if r.Chance(3, 4) {
		w = world.GenPlanned(r, cfg)
	} else {
		w = world.GenWorld(r, cfg)
	}
	base := w.Ops[0].Args
	n := 2 + r.Intn(5)
	var ops []world.Op
	for i := 0; i < n; i++ {
		if r.Chance(1, 2) {
			// redefine with a subset of the options and random filters
			var sub []int
			for _, a := range base {
				if r.Chance(3, 4) {
					sub = append(sub, a)
				}
			}
			if r.Chance(1, 2) {
				w.Args = append(w.Args, randomFilter(r, world.ArgFilterIn))
				sub = append(sub, len(w.Args)-1)
			}
			if r.Chance(1, 5) {
				w.Args = append(w.Args, randomFilter(r, world.ArgFilterOut))
				sub = append(sub, len(w.Args)-1)
			}
			ops = append(ops, world.Op{Kind: world.OpRedefine, Target: 0, Args: sub, Twin: i + 1})
		} else {
			args := base
			if r.Chance(1, 4) {
				args = nil
				for _, a := range base {
					if r.Chance(4, 5) {
						args = append(args, a)
					}
				}
			}
			ops = append(ops, world.Op{Kind: world.OpCall, Target: 0, Args: args, Twin: i + 1})
		}
	}
	w.Ops = ops
	return RCase{W: w}
}

func c09Valid(w world.World) bool {
	hasR, hasC := false, false
	for _, o := range w.Ops {
		switch o.Kind {
		case world.OpRedefine:
			hasR = true
		case world.OpCall:
			hasC = true
		default:
			return false
		}
		if o.Twin == 0 {
			return false
		}
	}
	if len(w.Faults) != 0 {
		return false
	}
	for _, a := range w.Args {
		switch a.Kind {
		case world.ArgNilOpt, world.ArgNonFunc, world.ArgNilConv:
			return false
		}
		if a.Kind == world.ArgGen && a.Gen.Fault != 0 {
			return false
		}
	}
	return hasR && hasC
}

func (C09) Decode(raw json.RawMessage) (core.Case, error) { return decodeRCase(raw) }
func (C09) Shrink(c core.Case) []core.Case                { return shrinkWorlds(c, c09Valid, false) }
func (C09) Shape(c core.Case, v core.Violation) string    { return shapeOf(c.(RCase).W, v) }

// callObservation renders what a Call did, independent of token ids.
func callObservation(rt *world.Runtime, res *world.OpResult, tgt int) string {
	if !res.Returned {
		return "no-return:" + res.PanicClass
	}
	s := "err=" + res.ErrKind
	for i := res.LogFrom; i < res.LogTo; i++ {
		rec := rt.Log[i]
		if rec.Party == tgt {
			var ps []string
			for _, id := range rec.In {
				ps = append(ps, rt.Provenance(id))
			}
			s += " target(" + strings.Join(ps, "; ") + ")"
		}
	}
	return s
}

func (C09) Run(c core.Case, ctx *core.Ctx) []core.Violation {
	w := c.(RCase).W
	if !world.WellFormed(w, false) || !c09Valid(w) {
		return nil
	}
	sh := world.ShapeHash(w)
	twin := w.Clone()
	twin.Ops = nil
	var callIdx []int // index in w.Ops of each twin op
	for i, o := range w.Ops {
		if o.Kind == world.OpCall {
			twin.Ops = append(twin.Ops, o)
			callIdx = append(callIdx, i)
		}
	}
	once, built := false, false
	for _, p := range w.Parties {
		once = once || p.Once
		built = built || p.InForm == world.FormBuilt
	}
	var out []core.Violation
	add := func(class, site, detail string) {
		out = append(out, core.Violation{Class: class, Site: site, Detail: detail})
	}
	for k := 0; k < ctx.NumSchedules(); k++ {
		sim := ctx.Begin(k)
		rt := world.Instantiate(&w, sim, ctx.St)
		if rt.InstErr != nil {
			ctx.St.Inc("inst_rejected")
			finish(ctx, rt, sim)
			return nil
		}
		for i := range w.Ops {
			before := ""
			if w.Ops[i].Kind == world.OpRedefine {
				before = rt.SetSnapshot()
			}
			rt.RunOp(i)
			if w.Ops[i].Kind == world.OpRedefine {
				if after := rt.SetSnapshot(); after != before {
					add("redefine-changed-a-value-set", "Redefine", fmt.Sprintf("schedule %d op %d: the Input()/Output() value sets of the functions held %q before Redefine and %q after", k, i, trunc(before), trunc(after)))
				}
			}
		}
		// twin history under the same simulation (fresh parties, reseeded per operation)
		rt2 := world.Instantiate(&twin, sim, ctx.St)
		for i := range twin.Ops {
			rt2.RunOp(i)
		}
		if once {
			ctx.St.Inc("c09_once_worlds")
		}
		if built {
			ctx.St.Inc("c09_built_worlds")
		}
		seenRedefine := false
		nontrivial := false
		for oi, res := range rt.Results {
			if res == nil || w.Ops[oi].Kind != world.OpRedefine {
				continue
			}
			ctx.St.Inc("c09_redefine_ops")
			if res.Returned && res.Err == nil {
				ctx.St.Inc("c09_redefine_ok")
			}
			if !res.Returned {
				ctx.St.Inc("cross_c06_panic_or_divergence")
			}
			for i := res.LogFrom; i < res.LogTo; i++ {
				rec := rt.Log[i]
				add("party-executed-during-redefine", "Redefine", fmt.Sprintf("op %d: party %d (%s) was executed while Redefine was planning", oi, rec.Party, rt.Parties[rec.Party]))
			}
		}
		for ti, oi := range callIdx {
			for j := 0; j < oi; j++ {
				if w.Ops[j].Kind == world.OpRedefine {
					seenRedefine = true
				}
			}
			a, b := rt.Results[oi], rt2.Results[ti]
			if a == nil || b == nil {
				continue
			}
			ctx.St.Inc("c09_calls_compared")
			oa, ob := callObservation(rt, a, w.Ops[oi].Target), callObservation(rt2, b, w.Ops[oi].Target)
			if oa != ob {
				add("call-differs-after-redefine", "Call", fmt.Sprintf("schedule %d, op %d: with the Redefine operations in the history: %s; without them: %s", k, oi, trunc(oa), trunc(ob)))
			}
			if seenRedefine && a.LogTo-a.LogFrom > 1 {
				ctx.St.Inc("c09_call_after_redefine_used_converter")
				nontrivial = true
			}
		}
		for pi := range w.Parties {
			if x, y := rt.ExecCount(pi), rt2.ExecCount(pi); x != y {
				add("execution-count-differs-after-redefine", "Redefine", fmt.Sprintf("schedule %d: party %d (%s) executed %d times with the Redefine operations, %d times without", k, pi, w.Parties[pi], x, y))
			}
		}
		if nontrivial {
			ctx.MarkNontrivial(sh, sim)
		}
		finish(ctx, rt, sim)
	}
	return sortViolations(out)
}
