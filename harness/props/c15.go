package props

import (
	"encoding/json"
	"fmt"
	"sort"

	"github.com/hashicorp/go-argmapper"
	"verif.local/harness/core"
	"verif.local/harness/world"
	"verif.local/simrt"
)

// C15: value sets and built functions round-trip values faithfully.
type C15 struct{}

func (C15) ID() string { return "C15" }

func (C15) Plan(tier string) core.Plan {
	if tier == "thorough" {
		return core.Plan{Cases: 800000, Schedules: 4}
	}
	return core.Plan{Cases: 70000, Schedules: 3}
}

func (C15) Info() core.Info {
	return core.Info{
		Rule: "planned worlds in which 1-4 parties (target and chained converters) are built with BuildFunc over NewValueSet lists with names (random casing), type-only values, subtypes and 0-3 outputs, called 1-6 times in one history with fresh option values per call (the built functions' value sets persist between calls), with and without an injected callback error; every built party's value lists are also put through the accessor clauses (Values order, Named/Typed/TypedSubtype lookup, SignatureValues->FromSignature). Oracle: the callback's view of its input set (Values and the documented lookups) is exactly the tokens injected for this execution (online provenance invariant: no residue of an earlier call); what it stores in the output set is what Result.Out and FromResult deliver and what downstream parties receive; an error it returns is Err(); on C05-stable worlds the outcome kind equals that of the twin world in which the built parties are ordinary struct functions; nil_struct faults feed nil pointers to built consumers; Args() of the loaded output set must re-supply every value under its label; a refused construction is a violation. Non-trivial: a built party executed in >=2 calls; distinct = distinct (world shape, event-log hash)",
		Assumptions: []string{
			"the accessor clauses have no seam on their path; they are exercised as world construction and reported here, but the claim for them is only that",
			"type-only outputs of built parties are findable through the documented lookups (BuiltFindable)",
		},
		Probes:    []string{"c15_built_execs", "c15_built_target_calls", "c15_built_converter_execs", "c15_fromresult_checked", "c15_valuesets_checked", "c15_callback_error", "c15_repeat_calls", "c15_own_output_set_loaded", "c15_args_of_loaded_set_checked", "c15_twin_compared", "s1_nonidentity_perms"},
		Real:      realComponents,
		Simulated: simComponents,
	}
}

func toBuilt(p *world.Party) bool {
	if !world.BuiltFindable(p.Out) || !world.BuiltFindable(p.In) {
		return false
	}
	for _, s := range append(append([]world.Slot{}, p.In...), p.Out...) {
		_ = s
	}
	p.InForm, p.OutForm, p.HasErr = world.FormBuilt, world.FormBuilt, true
	return true
}

// genWideBuilt: a built target (and a built provider) with 9-11 values on a side,
// all looked up by name or type in the callback.
func genWideBuilt(r *simrt.RNG) world.World {
	perm := make([]int, world.NumStruct)
	for i := range perm {
		perm[i] = i
	}
	for i := len(perm) - 1; i > 0; i-- {
		j := r.Intn(i + 1)
		perm[i], perm[j] = perm[j], perm[i]
	}
	n := 9 + r.Intn(3)
	var w world.World
	t := world.Party{InForm: world.FormBuilt, OutForm: world.FormBuilt, HasErr: true}
	prov := world.Party{InForm: world.FormBuilt, OutForm: world.FormBuilt, HasErr: true}
	var args []int
	for i := 0; i < n; i++ {
		l := world.Label{Type: perm[i]}
		if r.Bool() {
			l.Name = fmt.Sprintf("v%d", i)
		}
		t.In = append(t.In, world.Slot{Label: l})
		if i%3 == 0 {
			// a third of the values come out of the wide provider, the rest are supplied
			prov.Out = append(prov.Out, world.Slot{Label: l})
		} else {
			a := world.ArgSpec{Kind: world.ArgTyped, Label: l}
			if l.Name != "" {
				a.Kind, a.Spell = world.ArgNamed, l.Name
			}
			w.Args = append(w.Args, a)
			args = append(args, len(w.Args)-1)
		}
	}
	if r.Bool() {
		t.Out = append(t.Out, t.In[:1+r.Intn(n)]...)
	}
	w.Parties = []world.Party{t, prov}
	w.Args = append(w.Args, world.ArgSpec{Kind: world.ArgConvFunc, Party: 1})
	args = append(args, len(w.Args)-1)
	calls := 1 + r.Intn(3)
	for i := 0; i < calls; i++ {
		w.Ops = append(w.Ops, world.Op{Kind: world.OpCall, Target: 0, Args: args, Twin: i + 1})
	}
	return w
}

func (C15) Gen(r *simrt.RNG, tier string) core.Case {
	if r.Chance(1, 15) {
		return RCase{W: genWideBuilt(r)}
	}
	cfg := world.SwarmCfg(r)
	world.Deepen(&cfg, r, tier)
	cfg.Gens = false
	cfg.Structs = true
	cfg.Names = r.Chance(3, 4)
	cfg.MaxConvs = 1 + r.Intn(5)
	cfg.Defaults = false
	w := world.GenPlanned(r, cfg)
	// make a PRNG-chosen subset of the parties built (the target most of the time)
	for pi := range w.Parties {
		if (pi == 0 && r.Chance(3, 4)) || (pi > 0 && r.Chance(1, 2)) {
			toBuilt(&w.Parties[pi])
		}
	}
	for ai := range w.Args {
		if (w.Args[ai].Kind == world.ArgConv) && w.Parties[w.Args[ai].Party].InForm == world.FormBuilt {
			w.Args[ai].Kind = world.ArgConvFunc
		}
	}
	// 1-6 calls, each with fresh instances of the value options
	base := w.Ops[0].Args
	n := 1 + r.Intn(6)
	w.Ops = nil
	for i := 0; i < n; i++ {
		var args []int
		for _, a := range base {
			if k := w.Args[a].Kind; i > 0 && (k == world.ArgNamed || k == world.ArgTyped) {
				w.Args = append(w.Args, w.Args[a])
				args = append(args, len(w.Args)-1)
			} else {
				args = append(args, a)
			}
		}
		w.Ops = append(w.Ops, world.Op{Kind: world.OpCall, Target: 0, Args: args, Twin: i + 1})
	}
	if r.Chance(1, 4) {
		var built []int
		for pi, p := range w.Parties {
			if p.InForm == world.FormBuilt {
				built = append(built, pi)
			}
		}
		if len(built) > 0 {
			w.Faults = append(w.Faults, world.Fault{Kind: "conv_error", Party: built[r.Intn(len(built))], Nth: 1 + r.Intn(2)})
		}
	}
	// a struct-returning converter that now and then returns a nil struct pointer: the
	// values behind it are zero values (nil for pointer types), also for built consumers
	if r.Chance(1, 4) {
		var cands []int
		for pi, p := range w.Parties {
			if pi > 0 && (p.OutForm == world.FormStruct || p.OutForm == world.FormPtrStruct) {
				cands = append(cands, pi)
			}
		}
		if len(cands) > 0 {
			pi := cands[r.Intn(len(cands))]
			w.Parties[pi].OutForm = world.FormPtrStruct
			w.Faults = append(w.Faults, world.Fault{Kind: "nil_struct", Party: pi, Nth: 1 + r.Intn(3)})
		}
	}
	return RCase{W: w}
}

func c15Valid(w world.World) bool {
	built := false
	for _, p := range w.Parties {
		if p.InForm == world.FormBuilt {
			built = true
		}
		if len(p.Defaults) != 0 {
			return false
		}
	}
	for _, o := range w.Ops {
		if o.Kind != world.OpCall || o.Twin == 0 {
			return false
		}
	}
	for _, a := range w.Args {
		switch a.Kind {
		case world.ArgNamed, world.ArgTyped, world.ArgConv, world.ArgConvFunc:
		default:
			return false
		}
	}
	for _, f := range w.Faults {
		if f.Kind != "conv_error" && f.Kind != "nil_struct" {
			return false
		}
	}
	return built
}

func (C15) Decode(raw json.RawMessage) (core.Case, error) { return decodeRCase(raw) }
func (C15) Shrink(c core.Case) []core.Case                { return shrinkWorlds(c, c15Valid, false) }
func (C15) Shape(c core.Case, v core.Violation) string    { return shapeOf(c.(RCase).W, v) }

func (C15) Run(c core.Case, ctx *core.Ctx) []core.Violation {
	w := c.(RCase).W
	if !world.WellFormed(w, false) || !c15Valid(w) {
		return nil
	}
	sh := world.ShapeHash(w)
	// twin: built parties as ordinary struct functions
	twin := w.Clone()
	for pi := range twin.Parties {
		if twin.Parties[pi].InForm == world.FormBuilt {
			twin.Parties[pi].InForm, twin.Parties[pi].OutForm = world.FormStruct, world.FormStruct
		}
	}
	w1 := w.Clone()
	w1.Ops = w1.Ops[:1]
	w1.Faults = nil
	stable := c05Class(&w1) != "" && len(w.Faults) == 0
	var out []core.Violation
	add := func(class, site, detail string) {
		out = append(out, core.Violation{Class: class, Site: site, Detail: detail})
	}
	for k := 0; k < ctx.NumSchedules(); k++ {
		rt, sim := execWorld(&w, ctx, k)
		if rt.InstErr != nil {
			// nothing in these worlds is malformed: a constructor that refuses one of its
			// functions or value lists has refused legal input
			ctx.St.Inc("inst_rejected")
			finish(ctx, rt, sim)
			return []core.Violation{{Class: "construction-refused", Site: "NewValueSet|BuildFunc", Detail: "a constructor returned an error for well-formed input: " + trunc(rt.InstErr.Error())}}
		}
		// accessor clauses on every built party's lists
		for pi, p := range w.Parties {
			if p.InForm != world.FormBuilt {
				continue
			}
			for _, ss := range [][]world.Slot{p.In, p.Out} {
				if len(ss) == 0 {
					continue
				}
				ctx.St.Inc("c15_valuesets_checked")
				var msgs []string
				if pn, class, site, detail := core.Guard(func() { msgs = world.CheckValueSet(ss, rt.MintScratch) }); pn {
					add(class, site, fmt.Sprintf("value set of party %d: %s", pi, detail))
				}
				for _, m := range msgs {
					add("value-set-accessor-wrong", "ValueSet", fmt.Sprintf("party %d (%s): %s", pi, p, m))
				}
			}
		}
		builtRuns := map[int]int{}     // party -> number of ops it executed in
		var heldVals []argmapper.Value // values read from the target's own output set after an earlier load
		var heldToks []uint64
		for oi, res := range rt.Results {
			if res == nil {
				continue
			}
			if !res.Returned {
				add(res.PanicClass, res.PanicSite, fmt.Sprintf("op %d did not return: %s", oi, trunc(res.PanicDetail)))
				continue
			}
			tgt := w.Ops[oi].Target
			seen := map[int]bool{}
			var texec *world.ExecRec
			var firstErr *world.ExecRec
			for i := res.LogFrom; i < res.LogTo; i++ {
				rec := &rt.Log[i]
				if rt.Parties[rec.Party].InForm == world.FormBuilt {
					ctx.St.Inc("c15_built_execs")
					if rec.Party != tgt {
						ctx.St.Inc("c15_built_converter_execs")
					}
					if !seen[rec.Party] {
						seen[rec.Party] = true
						builtRuns[rec.Party]++
					}
					if rec.Failed() && firstErr == nil {
						firstErr = rec
					}
				}
				if rec.Party == tgt {
					texec = rec
				}
			}
			memo := false
			for _, rec := range rt.Log[:res.LogFrom] {
				if rec.Err != nil && rt.Parties[rec.Party].Once && error(rec.Err) == res.Err {
					memo = true // the memoised failure of a run-once party
				}
			}
			if firstErr == nil && res.ErrKind == "injected" && !memo {
				add("built-phantom-error", "Call", fmt.Sprintf("op %d: no callback failed during this call, yet it reports %s", oi, errStr(res.Err)))
			}
			if firstErr != nil {
				ctx.St.Inc("c15_callback_error")
				if res.Err != firstErr.ErrValue() {
					add("built-callback-error-not-returned", "Call", fmt.Sprintf("op %d: the callback of built party %d returned %q, Call returned %s", oi, firstErr.Party, firstErr.ErrValue().Error(), errStr(res.Err)))
				}
			}
			if res.Err == nil && texec != nil {
				// loading a later result into the Func's own output set must not rewrite
				// values a caller read from it after an earlier load
				if own := rt.Func(tgt).Output(); own != nil && res.Raw != nil && len(texec.Out) > 0 {
					if pn, _, _, _ := core.Guard(func() { _ = own.FromResult(*res.Raw) }); !pn {
						for i, hv := range heldVals {
							if id, _, _ := world.Decode(hv.Value); i < len(heldToks) && id != heldToks[i] {
								add("value-read-earlier-changed-by-later-load", "ValueSet", fmt.Sprintf("op %d: value %d read from the function's output set after an earlier result was token %d, now reads %d", oi, i, heldToks[i], id))
							}
						}
						heldVals = own.Values()
						heldToks = append([]uint64{}, texec.Out...)
						ctx.St.Inc("c15_own_output_set_loaded")
						// the loaded set as options for a next call: every value keeps its label
						for _, m := range checkArgsOf(own, w.Parties[tgt].Out, texec.Out, ctx) {
							add("value-set-args-mislabelled", "ValueSet", fmt.Sprintf("op %d: %s", oi, m))
						}
					}
				}
			}
			if res.Err == nil && texec != nil && w.Parties[tgt].InForm == world.FormBuilt {
				ctx.St.Inc("c15_built_target_calls")
				if len(res.Outs) != len(texec.Out) {
					add("built-outputs-not-delivered", "Call", fmt.Sprintf("op %d: Result has %d output values, the callback stored %d", oi, len(res.Outs), len(texec.Out)))
				} else {
					for i := range res.Outs {
						if res.Outs[i] != texec.Out[i] {
							add("built-outputs-not-delivered", "Call", fmt.Sprintf("op %d: output %d (%s) is token %d, the callback stored %d", oi, i, w.Parties[tgt].Out[i].Label, res.Outs[i], texec.Out[i]))
						}
					}
				}
				// FromResult into a fresh set of the same values
				if len(w.Parties[tgt].Out) > 0 && res.Raw != nil {
					var vals []argmapper.Value
					for _, s := range w.Parties[tgt].Out {
						vals = append(vals, argmapper.Value{Name: s.Name, Type: world.Types[s.Type], Subtype: s.Sub})
					}
					vs, err := argmapper.NewValueSet(vals)
					if err == nil {
						if pn, class, site, detail := core.Guard(func() { err = vs.FromResult(*res.Raw) }); pn {
							add(class, site, "FromResult: "+detail)
						} else if err != nil {
							add("fromresult-failed", "ValueSet", err.Error())
						} else {
							ctx.St.Inc("c15_fromresult_checked")
							for i, v := range vs.Values() {
								if id, _, _ := world.Decode(v.Value); i < len(texec.Out) && id != texec.Out[i] {
									add("fromresult-wrong-value", "ValueSet", fmt.Sprintf("op %d: FromResult value %d (%s) is token %d, the callback stored %d", oi, i, w.Parties[tgt].Out[i].Label, id, texec.Out[i]))
								}
							}
						}
					}
				}
			}
		}
		// the online invariant (provenance, no residue) and the lookup comparison
		for _, on := range rt.Online {
			if on.Party >= 0 && on.Party < len(rt.Parties) && rt.Parties[on.Party].InForm == world.FormBuilt {
				add("built-"+on.Class, "Call", on.Detail)
			}
		}
		repeated := false
		for _, n := range builtRuns { // order-insensitive: any
			if n >= 2 {
				repeated = true
			}
		}
		if repeated {
			ctx.St.Inc("c15_repeat_calls")
			ctx.MarkNontrivial(sh, sim)
		}
		// twin comparison of outcome kinds
		if stable {
			rt2 := world.Instantiate(&twin, sim, ctx.St)
			if rt2.InstErr == nil {
				for i := range twin.Ops {
					rt2.RunOp(i)
				}
				for oi := range w.Ops {
					a, b := rt.Results[oi], rt2.Results[oi]
					if a == nil || b == nil || !a.Returned || !b.Returned {
						continue
					}
					ctx.St.Inc("c15_twin_compared")
					if a.ErrKind != b.ErrKind {
						add("built-differs-from-ordinary-function", "Call", fmt.Sprintf("schedule %d op %d: with built parties the outcome is %q, with ordinary struct functions of the same signature %q", k, oi, a.ErrKind, b.ErrKind))
					}
				}
			}
		}
		finish(ctx, rt, sim)
	}
	return sortViolations(out)
}

// unreachable is a parameter type nothing in any world supplies or produces.
type unreachable struct{ ID uint64 }

var argsProbe, _ = argmapper.NewFunc(func(unreachable) {})

// checkArgsOf hands vs.Args() to a call that cannot succeed and reads the labels
// the library understood from the direct inputs its error lists (C13 makes that
// list truthful): they must be the labels and tokens of the loaded values.
func checkArgsOf(vs *argmapper.ValueSet, slots []world.Slot, toks []uint64, ctx *core.Ctx) []string {
	if len(slots) != len(toks) {
		return nil
	}
	want := map[world.Label]uint64{}
	for i, s := range slots {
		l := s.Label
		if world.IsIface(l.Type) {
			l.Type = s.Impl // an option carries the dynamic type
		}
		if _, dup := want[l]; dup || toks[i] == 0 {
			return nil
		}
		want[l] = toks[i]
	}
	var msgs []string
	var res argmapper.Result
	if pn, _, _, detail := core.Guard(func() { res = argsProbe.Call(vs.Args()...) }); pn {
		return []string{"Args() of the loaded set: the probing call did not return: " + trunc(detail)}
	}
	ue, ok := res.Err().(*argmapper.ErrArgumentUnsatisfied)
	if !ok {
		return nil
	}
	ctx.St.Inc("c15_args_of_loaded_set_checked")
	got := map[world.Label]uint64{}
	for _, in := range ue.Inputs {
		id, _, _ := world.Decode(in.Value)
		got[labelOfValue(in)] = id
	}
	for l, id := range want { // order-insensitive: messages are sorted by the caller
		if g, ok := got[l]; !ok {
			msgs = append(msgs, fmt.Sprintf("the loaded set holds %s but its Args() supply no value with that label", l))
		} else if g != id {
			msgs = append(msgs, fmt.Sprintf("Args() supply token %d as %s, the set holds token %d", g, l, id))
		}
	}
	if len(got) != len(want) {
		msgs = append(msgs, fmt.Sprintf("Args() supply %d distinct labels for %d values", len(got), len(want)))
	}
	sort.Strings(msgs)
	return msgs
}
