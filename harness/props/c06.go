package props

import (
	"encoding/json"
	"fmt"
	"os"

	"verif.local/harness/core"
	"verif.local/harness/model"
	"verif.local/harness/world"
	"verif.local/simrt"
)

// C06: calls always return.
type C06 struct{}

func (C06) ID() string { return "C06" }

func (C06) Plan(tier string) core.Plan {
	if tier == "thorough" {
		return core.Plan{Cases: 2000000, Schedules: 4}
	}
	return core.Plan{Cases: 150000, Schedules: 2}
}

func (C06) Info() core.Info {
	return core.Info{
		Rule: "the union of all world generators (random, planned, exact-match, mutual cycles of multi-input converters) with the ill-behaved shapes switched on: positional lists repeating a type (targets and converters, inputs and outputs), every name/subtype/type-only combination, built functions with empty sides, generators that decline or report an error, nil option, nil values, non-function and nil converters; driven through Call, Convert, Redefine and calls of redefined functions, with and without injected converter errors and nil structs. Well-formedness filter exactly as the statement. Oracle: every operation returns on its simulated thread (no panic, no unbounded recursion, within the step budget); a nil option yields an error; a concrete type implementing error as last ordinary result; empty value sets made through the constructor; every third party built through NewFuncList. Non-trivial: world has >=1 converter or a malformed option; distinct = distinct (world shape, event-log hash)",
		Assumptions: []string{
			"depth budget 400 library frames and 2,000,000 simulated steps per operation: an order of magnitude above the deepest legal run measured on this tree (evidence: max_depth_seen); exceeding it is reported as divergence",
		},
		Probes:    []string{"c06_ops", "c06_repeat_positional", "c06_malformed_option", "c06_generator_fault", "c06_redefine_ops", "c06_convert_ops", "c06_cyclic_worlds", "c06_double_pointer_rejected_at_construction", "fault_fired_conv_error", "s1_nonidentity_perms"},
		Real:      realComponents,
		Simulated: simComponents,
	}
}

func (C06) Gen(r *simrt.RNG, tier string) core.Case {
	// the union of all generators: now and then borrow another property's world
	if r.Chance(1, 3) || os.Getenv("VERIF_C06_BORROW") != "" {
		gens := []core.Property{C09{}, C13{}, C07{}, C16{}, C10{}, C05{}, C03{}, C04{}, C02{}, C08{}, C11{}, C15{}, C08{}}
		if os.Getenv("VERIF_C06_BORROW") == "C09" {
			return C09{}.Gen(r, tier)
		}
		return gens[r.Intn(len(gens))].Gen(r, tier)
	}
	cfg := world.SwarmCfg(r)
	world.Deepen(&cfg, r, tier)
	cfg.RepeatPos = r.Chance(1, 4)
	var w world.World
	switch x := r.Intn(20); {
	case x < 8:
		w = world.GenPlanned(r, cfg)
		if r.Chance(1, 4) {
			breakWorld(r, &w)
		}
	case x < 10:
		w = world.GenExact(r, cfg)
	case x < 12:
		w = genMutualCycle(r)
	default:
		w = world.GenWorld(r, cfg)
	}
	genGeneralOps(r, &w)
	genFaults(r, &w)
	// a doubly indirected marker struct as parameter: documented as rejected at construction
	if r.Chance(1, 25) {
		pi := r.Intn(len(w.Parties))
		if w.Parties[pi].InForm == world.FormStruct || w.Parties[pi].InForm == world.FormPtrStruct {
			w.Parties[pi].InForm = world.FormPtrPtrStruct
		}
	}
	// a concrete type that implements error as the last ordinary result
	if r.Chance(1, 15) {
		pi := r.Intn(len(w.Parties))
		if p := &w.Parties[pi]; p.OutForm == world.FormPositional && p.InForm != world.FormBuilt && len(p.Out) > 0 {
			p.HasErr = false
			p.Out = append(append([]world.Slot{}, p.Out...), world.Slot{Label: world.Label{Type: world.ErrImpl}})
		}
	}
	// a nil pointer of a type whose String method dereferences its receiver, given by type
	if r.Chance(1, 20) {
		w.Args = append(w.Args, world.ArgSpec{Kind: world.ArgTyped, Label: world.Label{Type: world.PtrBase + 3}, NilPtr: true})
		oi := r.Intn(len(w.Ops))
		if w.Ops[oi].Kind != world.OpCallRedef {
			w.Ops[oi].Args = append(append([]int{}, w.Ops[oi].Args...), len(w.Args)-1)
		}
	}
	// malformed options
	if r.Chance(1, 6) {
		kinds := []string{world.ArgNilOpt, world.ArgNilValue, world.ArgNonFunc, world.ArgNilFunc, world.ArgNilConv}
		a := world.ArgSpec{Kind: kinds[r.Intn(len(kinds))]}
		if a.Kind == world.ArgNilValue && r.Bool() {
			a.Label.Name = "a"
		}
		w.Args = append(w.Args, a)
		oi := r.Intn(len(w.Ops))
		if w.Ops[oi].Kind != world.OpCallRedef {
			pos := r.Intn(len(w.Ops[oi].Args) + 1)
			args := append([]int{}, w.Ops[oi].Args[:pos]...)
			args = append(args, len(w.Args)-1)
			w.Ops[oi].Args = append(args, w.Ops[oi].Args[pos:]...)
		}
	}
	// generator faults
	if r.Chance(1, 8) {
		for i := range w.Args {
			if w.Args[i].Kind == world.ArgGen {
				w.Args[i].Gen.Fault = 1 + r.Intn(2)
			}
		}
	}
	if r.Chance(1, 12) && len(w.Parties) > 1 {
		w.Args = append(w.Args, world.ArgSpec{Kind: world.ArgGen, Gen: &world.Gen{Trigger: r.Intn(world.NumStruct), Party: 1 + r.Intn(len(w.Parties)-1), Fault: 2}})
		w.Ops[0].Args = append(w.Ops[0].Args, len(w.Args)-1)
	}
	// a generator that wraps whatever it is offered (X -> [1]X): only terminates if
	// generators are not re-offered what they generated
	if r.Chance(1, 30) && len(w.Parties) > 1 {
		w.Args = append(w.Args, world.ArgSpec{Kind: world.ArgGen, Gen: &world.Gen{Trigger: 0, Party: 1, Fault: 3}})
		oi := r.Intn(len(w.Ops))
		if w.Ops[oi].Kind != world.OpCallRedef {
			w.Ops[oi].Args = append(append([]int{}, w.Ops[oi].Args...), len(w.Args)-1)
		}
	}
	return RCase{W: w}
}

func c06Valid(w world.World) bool { return true }

func (C06) Decode(raw json.RawMessage) (core.Case, error) { return decodeRCase(raw) }
func (C06) Shrink(c core.Case) []core.Case                { return shrinkWorlds(c, c06Valid, true) }
func (C06) Shape(c core.Case, v core.Violation) string    { return shapeOf(c.(RCase).W, v) }

func (C06) Run(c core.Case, ctx *core.Ctx) []core.Violation {
	w := c.(RCase).W
	if !world.WellFormed(w, true) {
		return nil
	}
	sh := world.ShapeHash(w)
	repeat, malformed, genFault, cyc := false, false, false, false
	for _, p := range w.Parties {
		for _, ss := range [][]world.Slot{p.In, p.Out} {
			seen := map[int]bool{}
			for _, s := range ss {
				if s.Name == "" && s.Sub == "" {
					if seen[s.Type] {
						repeat = true
					}
					seen[s.Type] = true
				}
			}
		}
	}
	for _, a := range w.Args {
		switch a.Kind {
		case world.ArgNilOpt, world.ArgNilValue, world.ArgNonFunc, world.ArgNilFunc, world.ArgNilConv:
			malformed = true
		case world.ArgGen:
			if a.Gen.Fault != 0 {
				genFault = true
			}
		}
	}
	var convs []int
	for pi := range w.Parties {
		if len(w.Parties[pi].Out) > 0 {
			convs = append(convs, pi)
		}
	}
	cyc = hasConverterCycle(&w, convs)
	var out []core.Violation
	for k := 0; k < ctx.NumSchedules(); k++ {
		rt, sim := execWorld(&w, ctx, k)
		if rt.InstErr != nil {
			ctx.St.Inc("inst_rejected")
			if rt.InstPanic != "" {
				// a constructor that panics has not reported an error
				class, site := core.ClassifyPanic(rt.InstPanic, rt.InstPanicStack)
				out = append(out, core.Violation{Class: class, Site: site, Detail: "construction did not return: " + trunc(rt.InstErr.Error())})
				finish(ctx, rt, sim)
				return sortViolations(out)
			}
			for _, p := range w.Parties {
				if p.InForm == world.FormPtrPtrStruct {
					ctx.St.Inc("c06_double_pointer_rejected_at_construction")
				}
			}
			finish(ctx, rt, sim)
			return nil
		}
		for oi, res := range rt.Results {
			if res == nil {
				continue
			}
			ctx.St.Inc("c06_ops")
			switch w.Ops[oi].Kind {
			case world.OpRedefine:
				ctx.St.Inc("c06_redefine_ops")
			case world.OpConvert:
				ctx.St.Inc("c06_convert_ops")
			}
			if !res.Returned {
				out = append(out, core.Violation{Class: res.PanicClass, Site: res.PanicSite,
					Detail: fmt.Sprintf("op %d (%s) did not return: %s", oi, w.Ops[oi].Kind, trunc(res.PanicDetail))})
				continue
			}
			if w.Ops[oi].Kind != world.OpCallRedef {
				v := model.ViewOf(&w, oi)
				if v.HasNilOpt && res.Err == nil {
					out = append(out, core.Violation{Class: "nil-option-accepted", Site: opSite(w.Ops[oi].Kind), Detail: fmt.Sprintf("op %d: a nil option was given but no error was returned", oi)})
				}
			}
		}
		if repeat {
			ctx.St.Inc("c06_repeat_positional")
		}
		if malformed {
			ctx.St.Inc("c06_malformed_option")
		}
		if genFault {
			ctx.St.Inc("c06_generator_fault")
		}
		if rt.FaultsFired["gen_wrap"] > 0 {
			ctx.St.Inc("c06_wrapping_generator")
		}
		if cyc {
			ctx.St.Inc("c06_cyclic_worlds")
		}
		if len(w.Parties) > 1 || malformed {
			ctx.MarkNontrivial(sh, sim)
		}
		finish(ctx, rt, sim)
	}
	return sortViolations(out)
}
