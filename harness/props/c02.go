package props

import (
	"encoding/json"
	"fmt"

	"verif.local/harness/core"
	"verif.local/harness/model"
	"verif.local/harness/world"
	"verif.local/simrt"
)

// C02: unsatisfiable calls are refused.
type C02 struct{}

func (C02) ID() string { return "C02" }

func (C02) Plan(tier string) core.Plan {
	if tier == "thorough" {
		return core.Plan{Cases: 1500000, Schedules: 6}
	}
	return core.Plan{Cases: 100000, Schedules: 3}
}

func (C02) Info() core.Info {
	return core.Info{
		Rule:        "worlds biased to non-derivability: planned worlds with a supply or a link deleted, prerequisites only reachable through a converter that needs the thing itself, mutual cycles of 2-3 multi-input converters, subtype mismatches, plus random worlds. Judged only when some target parameter has no PERMIT-match in the least fixpoint of PERMIT-derivable labels (upper bound incl. generator-offered converters): Call must return a non-nil error, the target must not run, no party may run with an invented argument; when moreover every supplied converter fires in the EXPECT fixpoint the error must be the dedicated unsatisfied-argument type. Divergence or panic counts as not returning an error; further shapes: assignable-but-not-identical types (defined slice type vs. its unnamed base), a run-once target that succeeded followed by the judged underivable call, an underivable parameter declared by embedding its type. Non-trivial: >=1 converter supplied; distinct = distinct (world shape, event-log hash)",
		Assumptions: []string{"PERMIT over-approximates every binding a correct library may make (C01), so a parameter outside its fixpoint is truly underivable"},
		Probes:      []string{"c02_underivable_calls", "c02_with_cycle", "c02_after_successful_call", "c02_dedicated_error_required", "c02_converter_ran_before_refusal", "s1_nonidentity_perms"},
		Real:        realComponents,
		Simulated:   simComponents,
	}
}

// breakWorld deletes something from a derivable world.
func breakWorld(r *simrt.RNG, w *world.World) {
	o := &w.Ops[0]
	if len(o.Args) == 0 {
		return
	}
	n := 1 + r.Intn(2)
	for i := 0; i < n && len(o.Args) > 0; i++ {
		j := r.Intn(len(o.Args))
		o.Args = append(o.Args[:j], o.Args[j+1:]...)
	}
	if len(w.Parties[0].Defaults) > 0 && r.Bool() {
		w.Parties[0].Defaults = nil
	}
}

// GenMutualCycle: conv(A,X)->B, conv(B,X)->A, [conv(A,B)->C], target needs C (or A); supplied X.
func genMutualCycle(r *simrt.RNG) world.World {
	perm := []int{0, 1, 2, 3, 4, 5, 6, 7}
	for i := len(perm) - 1; i > 0; i-- {
		j := r.Intn(i + 1)
		perm[i], perm[j] = perm[j], perm[i]
	}
	A, B, C, X := perm[0], perm[1], perm[2], perm[3]
	l := func(t int) world.Slot { return world.Slot{Label: world.Label{Type: t}} }
	mk := func(in []int, out int) world.Party {
		p := world.Party{InForm: world.FormPositional, OutForm: world.FormPositional, HasErr: r.Bool()}
		for _, t := range in {
			p.In = append(p.In, l(t))
		}
		p.Out = []world.Slot{l(out)}
		if r.Chance(1, 3) {
			p.InForm = world.FormStruct
		}
		return p
	}
	w := world.World{}
	tneed := C
	w.Parties = append(w.Parties, mk([]int{tneed}, A))
	w.Parties[0].Out = nil
	w.Parties = append(w.Parties, mk([]int{A, X}, B), mk([]int{B, X}, A))
	if r.Chance(2, 3) {
		w.Parties = append(w.Parties, mk([]int{A, B}, C))
	} else {
		w.Parties[0].In[0].Type = A
	}
	if r.Chance(1, 3) { // a third member of the cycle
		D := perm[4]
		w.Parties[2] = mk([]int{B, X}, D)
		w.Parties = append(w.Parties, mk([]int{D, X}, A))
	}
	var args []int
	for pi := 1; pi < len(w.Parties); pi++ {
		w.Args = append(w.Args, world.ArgSpec{Kind: world.ArgConv, Party: pi})
		args = append(args, len(w.Args)-1)
	}
	w.Args = append(w.Args, world.ArgSpec{Kind: world.ArgTyped, Label: world.Label{Type: X}})
	args = append(args, len(w.Args)-1)
	for i := len(args) - 1; i > 0; i-- {
		j := r.Intn(i + 1)
		args[i], args[j] = args[j], args[i]
	}
	w.Ops = []world.Op{{Kind: world.OpCall, Target: 0, Args: args}}
	return w
}

func (C02) Gen(r *simrt.RNG, tier string) core.Case {
	cfg := world.SwarmCfg(r)
	world.Deepen(&cfg, r, tier)
	var w world.World
	switch x := r.Intn(20); {
	case x < 11:
		w = world.GenPlanned(r, cfg)
		full := w.Ops[0]
		full.Args = append([]int{}, full.Args...)
		breakWorld(r, &w)
		// a value under the right name and type but another (non-empty) subtype is no help
		if r.Chance(1, 5) {
			for _, sl := range w.Parties[0].In {
				if sl.Sub == "" || world.IsIface(sl.Type) {
					continue
				}
				l := sl.Label
				if l.Sub == world.Subs[0] {
					l.Sub = world.Subs[1]
				} else {
					l.Sub = world.Subs[0]
				}
				a := world.ArgSpec{Kind: world.ArgTyped, Label: l}
				if l.Name != "" {
					a.Kind, a.Spell = world.ArgNamed, l.Name
				}
				w.Args = append(w.Args, a)
				w.Ops[0].Args = append(append([]int{}, w.Ops[0].Args...), len(w.Args)-1)
				break
			}
		}
		if r.Chance(1, 8) {
			// a run-once target that has already succeeded must still refuse an underivable call
			// (other run-once parties are excluded: a memoised converter is used without
			// looking at its inputs again, which is C11's business and no derivation failure)
			for pi := range w.Parties {
				w.Parties[pi].Once = pi == 0
			}
			w.Ops = []world.Op{full, w.Ops[0]}
		}
	case x < 12:
		if r.Bool() {
			w = genMutualCycle(r)
		} else {
			w = genAssignableNotIdentical(r)
		}
	default:
		w = world.GenWorld(r, cfg)
	}
	// an underivable parameter declared by embedding its type in the parameter struct
	if t := &w.Parties[0]; (t.InForm == world.FormStruct || t.InForm == world.FormPtrStruct) && r.Chance(1, 10) {
		used := map[int]bool{}
		for _, p := range w.Parties {
			for _, sl := range append(append([]world.Slot{}, p.In...), p.Out...) {
				used[sl.Type] = true
			}
		}
		for _, a := range w.Args {
			used[a.Label.Type] = true
		}
		for ty := 6; ty < world.NumStruct; ty++ {
			if !used[ty] {
				t.In = append(append([]world.Slot{}, t.In...), world.Slot{Label: world.Label{Name: fmt.Sprintf("t%d", ty), Type: ty}})
				break
			}
		}
	}
	return RCase{W: w}
}

// genAssignableNotIdentical: the only available value is of a type that is
// assignable to the parameter's type without being it (a defined slice type and
// the unnamed type it is built on): not an interface, so no derivation.
func genAssignableNotIdentical(r *simrt.RNG) world.World {
	have, need := world.SliceDef, world.SliceRaw
	if r.Bool() {
		have, need = need, have
	}
	other := r.Intn(8)
	t := world.Party{InForm: world.FormPositional, OutForm: world.FormPositional, In: []world.Slot{{Label: world.Label{Type: need}}}, HasErr: r.Bool()}
	if r.Bool() {
		t.InForm = world.FormStruct
		if r.Bool() {
			t.In[0].Name = world.Names[r.Intn(4)]
		}
	}
	if r.Bool() {
		t.In = append(t.In, world.Slot{Label: world.Label{Type: other}})
	}
	w := world.World{Parties: []world.Party{t}}
	var args []int
	add := func(a world.ArgSpec) { w.Args = append(w.Args, a); args = append(args, len(w.Args)-1) }
	add(world.ArgSpec{Kind: world.ArgTyped, Label: world.Label{Type: other}})
	if r.Bool() {
		l := world.Label{Type: have}
		a := world.ArgSpec{Kind: world.ArgTyped, Label: l}
		if r.Bool() && t.In[0].Name != "" {
			a.Kind, a.Label.Name, a.Spell = world.ArgNamed, t.In[0].Name, t.In[0].Name
		}
		add(a)
	} else {
		w.Parties = append(w.Parties, world.Party{InForm: world.FormPositional, OutForm: world.FormPositional, In: []world.Slot{{Label: world.Label{Type: other}}}, Out: []world.Slot{{Label: world.Label{Type: have}}}, HasErr: r.Bool()})
		add(world.ArgSpec{Kind: world.ArgConv, Party: 1})
	}
	w.Ops = []world.Op{{Kind: world.OpCall, Target: 0, Args: args}}
	return w
}

func c02Valid(w world.World) bool {
	if len(w.Ops) < 1 || len(w.Ops) > 2 || len(w.Faults) != 0 {
		return false
	}
	for _, o := range w.Ops {
		if o.Kind != world.OpCall || o.Target != w.Ops[0].Target {
			return false
		}
	}
	last := len(w.Ops) - 1
	if last > 0 {
		for pi, p := range w.Parties {
			if p.Once && pi != w.Ops[0].Target {
				return false
			}
		}
	}
	v := model.ViewOf(&w, last)
	if v.HasNilOpt || v.HasBadConv {
		return false
	}
	avail, _ := model.LFP(&w, v, model.Permit, true)
	return len(model.Missing(&w, w.Ops[last].Target, avail, model.Permit)) > 0
}

func (C02) Decode(raw json.RawMessage) (core.Case, error) { return decodeRCase(raw) }
func (C02) Shrink(c core.Case) []core.Case                { return shrinkWorlds(c, c02Valid, false) }
func (C02) Shape(c core.Case, v core.Violation) string    { return shapeOf(c.(RCase).W, v) }

// hasConverterCycle reports a dependency cycle among the converters of a view
// (an output of one PERMIT-matches an input of the next).
func hasConverterCycle(w *world.World, convs []int) bool {
	n := len(convs)
	adj := make([][]bool, n)
	for i := range adj {
		adj[i] = make([]bool, n)
		for j := range adj[i] {
			for _, in := range w.Parties[convs[i]].In {
				for _, o := range w.Parties[convs[j]].Out {
					if model.Permit(o.Label, in.Label) {
						adj[i][j] = true
					}
				}
			}
		}
	}
	for k := 0; k < n; k++ {
		for i := 0; i < n; i++ {
			for j := 0; j < n; j++ {
				if adj[i][k] && adj[k][j] {
					adj[i][j] = true
				}
			}
		}
	}
	for i := 0; i < n; i++ {
		if adj[i][i] {
			return true
		}
	}
	return false
}

func (C02) Run(c core.Case, ctx *core.Ctx) []core.Violation {
	w := c.(RCase).W
	if !world.WellFormed(w, false) || !c02Valid(w) {
		return nil
	}
	sh := world.ShapeHash(w)
	last := len(w.Ops) - 1
	view := model.ViewOf(&w, last)
	tgt := w.Ops[last].Target
	// dedicated error type required when every supplied converter is satisfiable (strict reading)
	_, firedE := model.LFP(&w, view, model.Expect, false)
	dedicated := !view.HasGen
	for _, pi := range view.Convs {
		if !firedE[pi] {
			dedicated = false
		}
	}
	cyc := hasConverterCycle(&w, view.Convs)
	var out []core.Violation
	add := func(class, site, detail string) {
		out = append(out, core.Violation{Class: class, Site: site, Detail: detail})
	}
	for k := 0; k < ctx.NumSchedules(); k++ {
		rt, sim := execWorld(&w, ctx, k)
		if rt.InstErr != nil {
			ctx.St.Inc("inst_rejected")
			finish(ctx, rt, sim)
			return nil
		}
		ctx.St.Inc("c02_underivable_calls")
		if cyc {
			ctx.St.Inc("c02_with_cycle")
		}
		res := rt.Results[last]
		if last > 0 && rt.Results[0].Returned && rt.Results[0].Err == nil {
			ctx.St.Inc("c02_after_successful_call")
		}
		if !res.Returned {
			add(res.PanicClass, res.PanicSite, "underivable call did not return an error: "+trunc(res.PanicDetail))
		} else {
			if res.Err == nil {
				add("underivable-call-succeeded", "Call", fmt.Sprintf("a target parameter is outside the PERMIT fixpoint but Call returned no error; %s", describeWorld(w)))
			}
			for i := res.LogFrom; i < res.LogTo; i++ {
				if rt.Log[i].Party == tgt {
					add("target-executed-on-underivable-call", "Call", "the target ran although a parameter cannot be derived")
				} else {
					ctx.St.Inc("c02_converter_ran_before_refusal")
				}
			}
			for _, on := range rt.Online {
				if on.Class == "invented-value" {
					add("converter-ran-with-missing-argument", "Call", on.Detail)
				}
			}
			if dedicated {
				ctx.St.Inc("c02_dedicated_error_required")
				if res.Err != nil && res.ErrKind != "unsatisfied" {
					add("not-the-unsatisfied-error", "Call", fmt.Sprintf("every converter is satisfiable, yet the error is of kind %q: %s", res.ErrKind, trunc(res.Err.Error())))
				}
			}
		}
		if len(view.Convs)+len(view.GenParties) > 0 {
			ctx.MarkNontrivial(sh, sim)
		}
		finish(ctx, rt, sim)
	}
	return sortViolations(out)
}
