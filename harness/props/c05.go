package props

import (
	"encoding/json"
	"fmt"

	"verif.local/harness/core"
	"verif.local/harness/model"
	"verif.local/harness/world"
	"verif.local/simrt"
)

// C05: chaining is complete on well-behaved converter sets; outcome is stable.
type C05 struct{}

func (C05) ID() string { return "C05" }

func (C05) Plan(tier string) core.Plan {
	if tier == "thorough" {
		return core.Plan{Cases: 500000, Schedules: 48}
	}
	return core.Plan{Cases: 40000, Schedules: 10}
}

func (C05) Info() core.Info {
	return core.Info{
		Rule: "worlds in class (a): every converter has <=1 input value, with arbitrary cycles, bidirectional pairs and multi-output converters, or class (b): multi-input converters without cyclic dependencies, each firing in the EXPECT fixpoint; derivable (planned) and broken variants; a fault-free batch and a batch in which some converters fail at their k-th execution. Oracle 1 (completeness): target EXPECT-satisfiable => Call returns no error, or (faulty batch only) exactly an injected converter error. Oracle 2 (stability, fault-free batch): the same world under 10-48 seeded iteration-order schedules (canonical, reverse, rotate, uniform, mixed, adversarial single site) yields one outcome class. Non-trivial: >=2 converters; distinct = distinct (world shape, event-log hash)",
		Assumptions: []string{
			"EXPECT under-approximates what the documentation promises; between EXPECT and PERMIT neither success nor failure is demanded",
			"converter dependency for class (b) is judged with PERMIT (conservative: more edges, fewer worlds qualify)",
		},
		Probes:    []string{"c05_class_a", "c05_class_b", "c05_must_succeed", "c05_cyclic_class_a", "c05_chain_depth_ge3", "c05_underivable_stable", "c05_injected_error_reported", "s1_nonidentity_perms"},
		Real:      realComponents,
		Simulated: simComponents,
	}
}

func (C05) Gen(r *simrt.RNG, tier string) core.Case {
	cfg := world.SwarmCfg(r)
	cfg.Gens = false
	cfg.MaxConvs = 2 + r.Intn(6)
	cfg.MultiIn = r.Chance(1, 2)
	cfg.Distractors = !cfg.MultiIn // class (b) wants no accidental cycles
	cfg.MultiHeavy = cfg.MultiIn
	if cfg.MultiIn {
		cfg.MaxTypes = 8 + r.Intn(4) // a wide type universe keeps accidental dependency cycles rare
		cfg.Ifaces = false
	}
	w := world.GenPlanned(r, cfg)
	if r.Chance(1, 5) {
		breakWorld(r, &w)
	}
	// faulty batch: some converters fail; a derivable call may then only report such an error
	if r.Chance(1, 4) {
		for pi := 1; pi < len(w.Parties); pi++ {
			if w.Parties[pi].HasErr && r.Chance(1, 2) {
				w.Faults = append(w.Faults, world.Fault{Kind: "conv_error", Party: pi, Nth: 1 + r.Intn(2)})
			}
		}
	}
	return RCase{W: w}
}

// c05Class returns "a", "b" or "".
func c05Class(w *world.World) string {
	if len(w.Ops) != 1 || w.Ops[0].Kind != world.OpCall {
		return ""
	}
	for _, f := range w.Faults {
		if f.Kind != "conv_error" {
			return ""
		}
	}
	v := model.ViewOf(w, 0)
	if v.HasGen || v.HasNilOpt || v.HasBadConv {
		return ""
	}
	single := true
	for _, pi := range v.Convs {
		if len(w.Parties[pi].In) > 1 {
			single = false
		}
	}
	if single {
		return "a"
	}
	if hasConverterCycle(w, v.Convs) {
		return ""
	}
	_, fired := model.LFP(w, v, model.Expect, false)
	for _, pi := range v.Convs {
		if !fired[pi] {
			return ""
		}
	}
	return "b"
}

func c05Valid(w world.World) bool { return c05Class(&w) != "" }

func (C05) Decode(raw json.RawMessage) (core.Case, error) { return decodeRCase(raw) }
func (C05) Shrink(c core.Case) []core.Case                { return shrinkWorlds(c, c05Valid, false) }
func (C05) Shape(c core.Case, v core.Violation) string    { return shapeOf(c.(RCase).W, v) }

func (C05) Run(c core.Case, ctx *core.Ctx) []core.Violation {
	w := c.(RCase).W
	if !world.WellFormed(w, false) {
		return nil
	}
	class := c05Class(&w)
	if class == "" {
		ctx.St.Inc("c05_outside_classes")
		return nil
	}
	sh := world.ShapeHash(w)
	view := model.ViewOf(&w, 0)
	availE, _ := model.LFP(&w, view, model.Expect, false)
	must := len(model.Missing(&w, w.Ops[0].Target, availE, model.Expect)) == 0
	cyc := hasConverterCycle(&w, view.Convs)
	var out []core.Violation
	outcomes := map[string]int{}
	var firstOf = map[string]int{}
	for k := 0; k < ctx.NumSchedules(); k++ {
		rt, sim := execWorld(&w, ctx, k)
		if rt.InstErr != nil {
			ctx.St.Inc("inst_rejected")
			finish(ctx, rt, sim)
			return nil
		}
		ctx.St.Inc("c05_class_" + class)
		if cyc && class == "a" {
			ctx.St.Inc("c05_cyclic_class_a")
		}
		res := rt.Results[0]
		oc := "ok"
		switch {
		case !res.Returned:
			oc = "no-return"
		case res.ErrKind == "injected":
			oc = "ok" // "succeeds (or reports the error of a converter that failed)"
			ctx.St.Inc("c05_injected_error_reported")
		case res.Err != nil:
			oc = "error"
		}
		faulty := len(w.Faults) > 0
		if _, seen := firstOf[oc]; !seen {
			firstOf[oc] = k
		}
		outcomes[oc]++
		if must {
			ctx.St.Inc("c05_must_succeed")
			switch oc {
			case "error":
				out = append(out, core.Violation{Class: "derivable-call-failed", Site: "Call",
					Detail: fmt.Sprintf("class (%s) world, every parameter derivable under the documented rules, schedule %d: Call failed (%s): %s", class, k, res.ErrKind, trunc(res.Err.Error()))})
			case "no-return":
				out = append(out, core.Violation{Class: res.PanicClass, Site: res.PanicSite, Detail: "derivable call did not return: " + trunc(res.PanicDetail)})
			}
			for i := res.LogFrom; i < res.LogTo; i++ {
				if depthOf(rt, &rt.Log[i]) >= 3 {
					ctx.St.Inc("c05_chain_depth_ge3")
					break
				}
			}
		}
		_ = faulty
		if len(view.Convs) >= 2 {
			ctx.MarkNontrivial(sh, sim)
		}
		finish(ctx, rt, sim)
	}
	if len(outcomes) > 1 && len(w.Faults) == 0 {
		out = append(out, core.Violation{Class: "outcome-depends-on-iteration-order", Site: "Call",
			Detail: fmt.Sprintf("class (%s) world: outcomes over %d schedules %v (first schedule of each: %v)", class, ctx.NumSchedules(), outcomes, firstOf)})
	} else if !must && outcomes["error"] > 0 {
		ctx.St.Inc("c05_underivable_stable")
	}
	return sortViolations(out)
}
