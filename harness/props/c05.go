package props

import (
	"encoding/json"
	"fmt"

	"verif.local/harness/core"
	"verif.local/harness/model"
	"verif.local/harness/world"
	"verif.local/simrt"
)

// C05: chaining is complete on well-behaved converter sets; outcome is stable.
type C05 struct{}

func (C05) ID() string { return "C05" }

func (C05) Plan(tier string) core.Plan {
	if tier == "thorough" {
		return core.Plan{Cases: 500000, Schedules: 48}
	}
	return core.Plan{Cases: 40000, Schedules: 10}
}

func (C05) Info() core.Info {
	return core.Info{
		Rule: "worlds in class (a): every converter has <=1 input value, with arbitrary cycles, bidirectional pairs and multi-output converters, or class (b): multi-input converters without cyclic dependencies, each firing in the EXPECT fixpoint; derivable (planned) and broken variants, and two-call histories (the call with a supply missing, then the full call, on the same converter objects, some of them run-once); a fault-free batch and a batch in which some converters fail at their k-th execution. Oracle 1 (completeness): target EXPECT-satisfiable => Call returns no error, or (faulty batch only) exactly an injected converter error. Oracle 2 (stability, fault-free batch): the same world under 10-48 seeded iteration-order schedules (canonical, reverse, rotate, uniform, mixed, adversarial single site) yields one outcome class; also judged after a loadinput (the target's own Input() set filled by its owner). Non-trivial: >=2 converters; distinct = distinct (world shape, event-log hash)",
		Assumptions: []string{
			"EXPECT under-approximates what the documentation promises; between EXPECT and PERMIT neither success nor failure is demanded",
			"converter dependency for class (b) is judged with PERMIT (conservative: more edges, fewer worlds qualify)",
		},
		Probes:    []string{"c05_class_a", "c05_class_b", "c05_must_succeed", "c05_cyclic_class_a", "c05_chain_depth_ge3", "c05_underivable_stable", "c05_injected_error_reported", "c05_call_after_failed_attempt", "s1_nonidentity_perms"},
		Real:      realComponents,
		Simulated: simComponents,
	}
}

func (C05) Gen(r *simrt.RNG, tier string) core.Case {
	cfg := world.SwarmCfg(r)
	world.Deepen(&cfg, r, tier)
	cfg.Arrays = r.Chance(1, 8)
	cfg.Gens = false
	cfg.MaxConvs = 2 + r.Intn(6)
	cfg.MultiIn = r.Chance(1, 2)
	cfg.Distractors = !cfg.MultiIn // class (b) wants no accidental cycles
	cfg.MultiHeavy = cfg.MultiIn
	if cfg.MultiIn {
		cfg.MaxTypes = 8 + r.Intn(4) // a wide type universe keeps accidental dependency cycles rare
		cfg.Ifaces = false
	}
	w := world.GenPlanned(r, cfg)
	if r.Chance(1, 5) {
		breakWorld(r, &w)
	}
	// history: first the call with a supply missing, then the full call, on the same objects
	// (run-once converters included: a failed attempt must not poison the next call)
	if r.Chance(1, 5) && len(w.Ops[0].Args) > 1 {
		full := w.Ops[0]
		broken := full
		broken.Args = nil
		dropped := false
		for _, a := range full.Args {
			if k := w.Args[a].Kind; !dropped && (k == world.ArgNamed || k == world.ArgTyped) && r.Chance(1, 2) {
				dropped = true
				continue
			}
			broken.Args = append(broken.Args, a)
		}
		if dropped {
			for pi := 1; pi < len(w.Parties); pi++ {
				if (r.Chance(1, 3) || len(w.Parties[pi].In) > 1) && w.Parties[pi].InForm != world.FormBuilt {
					w.Parties[pi].Once = true
				}
			}
			for ai := range w.Args {
				if w.Args[ai].Kind == world.ArgConv && w.Parties[w.Args[ai].Party].Once {
					w.Args[ai].Kind = world.ArgConvFunc
				}
			}
			w.Ops = []world.Op{broken, full}
			return RCase{W: w}
		}
	}
	// history: the target's own Input() set is filled by its owner (as a BuildFunc wrapper
	// over f.Input() does), then the same call: same outcome
	if r.Chance(1, 8) {
		call := w.Ops[0]
		w.Ops = []world.Op{{Kind: world.OpLoadInput, Target: call.Target}, call}
		if r.Bool() {
			w.Ops = append([]world.Op{call}, w.Ops...)
		}
		return RCase{W: w}
	}
	// faulty batch: some converters fail; a derivable call may then only report such an error
	if r.Chance(1, 4) {
		for pi := 1; pi < len(w.Parties); pi++ {
			if w.Parties[pi].HasErr && r.Chance(1, 2) {
				w.Faults = append(w.Faults, world.Fault{Kind: "conv_error", Party: pi, Nth: 1 + r.Intn(2)})
			}
		}
	}
	return RCase{W: w}
}

// c05Class returns "a", "b" or "".
// c05History: the history ends with a call that, taken alone, is in class (a) or (b).
func c05History(w *world.World) bool {
	if len(w.Ops) == 0 {
		return false
	}
	// the last operation is the judged one; earlier ones are history (an earlier
	// attempt with a supply missing need not be in a class itself)
	for i := range w.Ops {
		if w.Ops[i].Kind != world.OpCall && !(w.Ops[i].Kind == world.OpLoadInput && i < len(w.Ops)-1) {
			return false
		}
	}
	w1 := w.Clone()
	w1.Ops = []world.Op{w.Ops[len(w.Ops)-1]}
	return c05Class(&w1) != ""
}

func c05Class(w *world.World) string {
	if len(w.Ops) != 1 || w.Ops[0].Kind != world.OpCall {
		return ""
	}
	for _, f := range w.Faults {
		if f.Kind != "conv_error" {
			return ""
		}
	}
	v := model.ViewOf(w, 0)
	if v.HasGen || v.HasNilOpt || v.HasBadConv {
		return ""
	}
	single := true
	for _, pi := range v.Convs {
		if len(w.Parties[pi].In) > 1 {
			single = false
		}
	}
	if single {
		return "a"
	}
	if hasConverterCycle(w, v.Convs) {
		return ""
	}
	_, fired := model.LFP(w, v, model.Expect, false)
	for _, pi := range v.Convs {
		if !fired[pi] {
			return ""
		}
	}
	return "b"
}

func c05Valid(w world.World) bool { return c05History(&w) }

func (C05) Decode(raw json.RawMessage) (core.Case, error) { return decodeRCase(raw) }
func (C05) Shrink(c core.Case) []core.Case                { return shrinkWorlds(c, c05Valid, false) }
func (C05) Shape(c core.Case, v core.Violation) string    { return shapeOf(c.(RCase).W, v) }

func (C05) Run(c core.Case, ctx *core.Ctx) []core.Violation {
	w := c.(RCase).W
	if !world.WellFormed(w, false) {
		return nil
	}
	if !c05History(&w) {
		ctx.St.Inc("c05_outside_classes")
		return nil
	}
	sh := world.ShapeHash(w)
	type opInfo struct {
		class string
		must  bool
		cyc   bool
		nconv int
	}
	infos := make([]opInfo, len(w.Ops))
	for i := range w.Ops {
		w1 := w.Clone()
		w1.Ops = []world.Op{w.Ops[i]}
		view := model.ViewOf(&w, i)
		availE, _ := model.LFP(&w, view, model.Expect, false)
		infos[i] = opInfo{class: c05Class(&w1), must: len(model.Missing(&w, w.Ops[i].Target, availE, model.Expect)) == 0,
			cyc: hasConverterCycle(&w, view.Convs), nconv: len(view.Convs)}
	}
	var out []core.Violation
	outcomes := make([]map[string]int, len(w.Ops))
	firstOf := make([]map[string]int, len(w.Ops))
	for i := range outcomes {
		outcomes[i], firstOf[i] = map[string]int{}, map[string]int{}
	}
	for k := 0; k < ctx.NumSchedules(); k++ {
		rt, sim := execWorld(&w, ctx, k)
		if rt.InstErr != nil {
			ctx.St.Inc("inst_rejected")
			finish(ctx, rt, sim)
			return nil
		}
		nontrivial := false
		for oi, res := range rt.Results {
			if res == nil {
				continue
			}
			in := infos[oi]
			if in.class == "" {
				continue // history only, not judged
			}
			ctx.St.Inc("c05_class_" + in.class)
			if oi > 0 {
				ctx.St.Inc("c05_call_after_failed_attempt")
			}
			if in.cyc && in.class == "a" {
				ctx.St.Inc("c05_cyclic_class_a")
			}
			oc := "ok"
			switch {
			case !res.Returned:
				oc = "no-return"
			case res.ErrKind == "injected":
				oc = "ok" // "succeeds (or reports the error of a converter that failed)"
				ctx.St.Inc("c05_injected_error_reported")
			case res.Err != nil:
				oc = "error"
			}
			if _, seen := firstOf[oi][oc]; !seen {
				firstOf[oi][oc] = k
			}
			outcomes[oi][oc]++
			if in.must {
				ctx.St.Inc("c05_must_succeed")
				switch oc {
				case "error":
					out = append(out, core.Violation{Class: "derivable-call-failed", Site: "Call",
						Detail: fmt.Sprintf("op %d, class (%s) world, every parameter derivable under the documented rules, schedule %d: Call failed (%s): %s", oi, in.class, k, res.ErrKind, trunc(res.Err.Error()))})
				case "no-return":
					out = append(out, core.Violation{Class: res.PanicClass, Site: res.PanicSite, Detail: "derivable call did not return: " + trunc(res.PanicDetail)})
				}
				for i := res.LogFrom; i < res.LogTo; i++ {
					if depthOf(rt, &rt.Log[i]) >= 3 {
						ctx.St.Inc("c05_chain_depth_ge3")
						break
					}
				}
			}
			if in.nconv >= 2 {
				nontrivial = true
			}
		}
		if nontrivial {
			ctx.MarkNontrivial(sh, sim)
		}
		finish(ctx, rt, sim)
	}
	for oi := range w.Ops {
		if infos[oi].class == "" {
			continue
		}
		if len(outcomes[oi]) > 1 && len(w.Faults) == 0 {
			out = append(out, core.Violation{Class: "outcome-depends-on-iteration-order", Site: "Call",
				Detail: fmt.Sprintf("op %d, class (%s) world: outcomes over %d schedules %v (first schedule of each: %v)", oi, infos[oi].class, ctx.NumSchedules(), outcomes[oi], firstOf[oi])})
		} else if !infos[oi].must && outcomes[oi]["error"] > 0 {
			ctx.St.Inc("c05_underivable_stable")
		}
	}
	return sortViolations(out)
}
