package props

import (
	"encoding/json"
	"fmt"

	"verif.local/harness/core"
	"verif.local/harness/model"
	"verif.local/harness/world"
	"verif.local/simrt"
)

// C10: Convert agrees with calling func(T) T.
type C10 struct{}

func (C10) ID() string { return "C10" }

func (C10) Plan(tier string) core.Plan {
	if tier == "thorough" {
		return core.Plan{Cases: 1200000, Schedules: 4}
	}
	return core.Plan{Cases: 100000, Schedules: 3}
}

func (C10) Info() core.Info {
	return core.Info{
		Rule: "general worlds (planned and random, all label features, cycles, generators) in which a Convert(T, args) and a Call of a simulator-made identity target func(T) T with the same options are run in one history (both orders), T concrete or interface, under the same seeded schedule; some providers return a nil struct pointer on every execution so that the converted value is the zero value of T. Oracle: on worlds in the stable classes of C05 (outcome independent of iteration order) Convert returns (v,nil) iff the Call succeeds; always: a returned value is assignable to T, its provenance PERMIT-matches a type-only parameter (T,\"\"), on failure the value is nil and the error non-nil; when the target's parameter resolution is unique (no converter involved, one candidate supply) both deliver the same token. Non-trivial: >=1 converter; distinct = distinct (world shape, event-log hash)",
		Assumptions: []string{"equivalence is asserted only on C05-stable worlds so that a legitimate difference in how many S1 choices the two entry points consume cannot be mistaken for disagreement"},
		Probes:      []string{"c10_pairs", "c10_both_ok", "c10_both_fail", "c10_iface_target", "c10_value_checked", "c10_zero_value_converted", "s1_nonidentity_perms"},
		Real:        realComponents,
		Simulated:   simComponents,
	}
}

func (C10) Gen(r *simrt.RNG, tier string) core.Case {
	cfg := world.SwarmCfg(r)
	cfg.MaxParams = 1
	var w world.World
	if r.Chance(3, 4) {
		w = world.GenPlanned(r, cfg)
	} else {
		w = world.GenWorld(r, cfg)
	}
	// replace the target by an identity function of one (type-only) parameter
	ty := 0
	if len(w.Parties[0].In) > 0 {
		ty = w.Parties[0].In[0].Type
	}
	if r.Chance(1, 5) {
		ty = world.IfaceBase + r.Intn(world.NumIface)
	}
	id := world.Party{InForm: world.FormPositional, OutForm: world.FormPositional,
		In: []world.Slot{{Label: world.Label{Type: ty}}}, Out: nil, Defaults: nil}
	args := append(append([]int{}, w.Parties[0].Defaults...), w.Ops[0].Args...)
	w.Parties[0] = id
	if r.Chance(1, 4) {
		breakWorld(r, &w)
		args = w.Ops[0].Args
	}
	// providers returning a nil struct pointer: the converted value is then the zero value
	if r.Chance(1, 4) {
		for pi := 1; pi < len(w.Parties); pi++ {
			if w.Parties[pi].OutForm == world.FormStruct && r.Bool() {
				w.Parties[pi].OutForm = world.FormPtrStruct
			}
			if w.Parties[pi].OutForm == world.FormPtrStruct {
				w.Faults = append(w.Faults, world.Fault{Kind: "nil_struct", Party: pi, Nth: 0})
			}
		}
	}
	call := world.Op{Kind: world.OpCall, Target: 0, Args: args}
	conv := world.Op{Kind: world.OpConvert, Type: ty, Args: args}
	if r.Bool() {
		w.Ops = []world.Op{call, conv}
	} else {
		w.Ops = []world.Op{conv, call}
	}
	return RCase{W: w}
}

func c10Valid(w world.World) bool {
	if len(w.Ops) != 2 {
		return false
	}
	for _, f := range w.Faults {
		if f.Kind != "nil_struct" || f.Nth != 0 {
			return false
		}
	}
	var call, conv *world.Op
	for i := range w.Ops {
		switch w.Ops[i].Kind {
		case world.OpCall:
			call = &w.Ops[i]
		case world.OpConvert:
			conv = &w.Ops[i]
		}
	}
	if call == nil || conv == nil {
		return false
	}
	t := w.Parties[call.Target]
	if len(t.In) != 1 || t.In[0].Name != "" || t.In[0].Sub != "" || t.In[0].Type != conv.Type || len(t.Defaults) != 0 || t.InForm != world.FormPositional {
		return false
	}
	if len(call.Args) != len(conv.Args) {
		return false
	}
	for i := range call.Args {
		if call.Args[i] != conv.Args[i] {
			return false
		}
	}
	for _, a := range w.Args {
		switch a.Kind {
		case world.ArgNilOpt, world.ArgNonFunc, world.ArgNilConv:
			return false
		}
		if a.Kind == world.ArgGen && a.Gen.Fault == 2 {
			return false
		}
	}
	// no run-once converters: the second operation would see the first one's memo
	for _, p := range w.Parties {
		if p.Once {
			return false
		}
	}
	return true
}

func (C10) Decode(raw json.RawMessage) (core.Case, error) { return decodeRCase(raw) }
func (C10) Shrink(c core.Case) []core.Case                { return shrinkWorlds(c, c10Valid, false) }
func (C10) Shape(c core.Case, v core.Violation) string    { return shapeOf(c.(RCase).W, v) }

func (C10) Run(c core.Case, ctx *core.Ctx) []core.Violation {
	w := c.(RCase).W
	if !world.WellFormed(w, false) || !c10Valid(w) {
		return nil
	}
	sh := world.ShapeHash(w)
	ci, vi := 0, 1
	if w.Ops[0].Kind == world.OpConvert {
		ci, vi = 1, 0
	}
	ty := w.Ops[vi].Type
	// stability class of the world, judged on the call alone
	w1 := w.Clone()
	w1.Ops = []world.Op{w.Ops[ci]}
	w1.Faults = nil
	stable := c05Class(&w1) != ""
	view := model.ViewOf(&w, ci)
	var out []core.Violation
	add := func(class, detail string) {
		out = append(out, core.Violation{Class: class, Site: "Convert", Detail: detail})
	}
	for k := 0; k < ctx.NumSchedules(); k++ {
		rt, sim := execWorld(&w, ctx, k)
		if rt.InstErr != nil {
			ctx.St.Inc("inst_rejected")
			finish(ctx, rt, sim)
			return nil
		}
		ctx.St.Inc("c10_pairs")
		if world.IsIface(ty) {
			ctx.St.Inc("c10_iface_target")
		}
		cr, vr := rt.Results[ci], rt.Results[vi]
		if !cr.Returned || !vr.Returned {
			ctx.St.Inc("cross_c06_panic_or_divergence")
			finish(ctx, rt, sim)
			continue
		}
		if vr.Err == nil {
			if vr.ConvNil && world.IsIface(ty) && rt.FaultsFired["nil_struct"] > 0 {
				// the zero value of an interface type is the nil interface
				ctx.St.Inc("c10_zero_value_converted")
			} else if vr.ConvNil || len(vr.Outs) != 1 {
				add("convert-returned-nil-value-without-error", "Convert returned (nil, nil)")
			} else {
				ctx.St.Inc("c10_value_checked")
				id := vr.Outs[0]
				if !world.Implements(vr.OutDyn[0], ty) {
					add("convert-value-not-assignable", fmt.Sprintf("value of type %s is not assignable to %s", world.TypeName(vr.OutDyn[0]), world.TypeName(ty)))
				}
				if id == 0 && rt.FaultsFired["nil_struct"] > 0 {
					ctx.St.Inc("c10_zero_value_converted")
				} else if id == 0 || id >= uint64(len(rt.Tokens)) {
					add("convert-invented-value", fmt.Sprintf("Convert returned token %d", id))
				} else if tk := rt.Tokens[id]; !model.Permit(tk.Label, world.Label{Type: ty}) {
					add("convert-mislabelled-value", fmt.Sprintf("Convert(%s) returned a value labelled %s", world.TypeName(ty), tk.Label))
				}
			}
		} else if !vr.ConvNil {
			add("convert-returned-value-with-error", "Convert returned a non-nil value together with an error")
		}
		if stable {
			switch {
			case (cr.Err == nil) != (vr.Err == nil):
				add("convert-disagrees-with-call", fmt.Sprintf("schedule %d: Call of func(%s) %s -> err=%v, Convert -> err=%v", k, world.TypeName(ty), world.TypeName(ty), errStr(cr.Err), errStr(vr.Err)))
			case cr.Err == nil:
				ctx.St.Inc("c10_both_ok")
			default:
				ctx.St.Inc("c10_both_fail")
			}
		}
		if len(view.Convs)+len(view.GenParties) > 0 {
			ctx.MarkNontrivial(sh, sim)
		}
		finish(ctx, rt, sim)
	}
	return sortViolations(out)
}

func errStr(e error) string {
	if e == nil {
		return "nil"
	}
	return trunc(e.Error())
}
