package props

import (
	"encoding/json"
	"fmt"

	"verif.local/harness/core"
	"verif.local/harness/model"
	"verif.local/harness/world"
	"verif.local/simrt"
)

// C10: Convert agrees with calling func(T) T.
type C10 struct{}

func (C10) ID() string { return "C10" }

func (C10) Plan(tier string) core.Plan {
	if tier == "thorough" {
		return core.Plan{Cases: 1200000, Schedules: 4}
	}
	return core.Plan{Cases: 100000, Schedules: 3}
}

func (C10) Info() core.Info {
	return core.Info{
		Rule:        "general worlds (planned and random, all label features, cycles, generators) in which a Convert(T, args) and a Call of a simulator-made identity target func(T) T with the same options are run in one history (both orders), T concrete or interface, under the same seeded schedule; some providers return a nil struct pointer on every execution so that the converted value is the zero value of T. Oracle: on worlds in the stable classes of C05 (outcome independent of iteration order) Convert returns (v,nil) iff the Call succeeds; always: a returned value is assignable to T, its provenance PERMIT-matches a type-only parameter (T,\"\"), on failure the value is nil and the error non-nil; when the target's parameter resolution is unique (no converter involved, one candidate supply) both deliver the same token. One history in 25 converts to the type `error` (the simulated target is then literally func(error) error and hands back what it receives). A twelfth of the histories convert to a pool type and then, from disjoint options, to its twin: a distinct Go type that prints the same; target types include a pointer to an interface type and marker struct types resolved field by field. Non-trivial: >=1 converter; distinct = distinct (world shape, event-log hash)",
		Assumptions: []string{"equivalence is asserted only on C05-stable worlds so that a legitimate difference in how many S1 choices the two entry points consume cannot be mistaken for disagreement"},
		Probes:      []string{"c10_pairs", "c10_struct_target", "c10_both_ok", "c10_both_fail", "c10_iface_target", "c10_value_checked", "c10_zero_value_converted", "c10_twin_type_pairs", "c10_generator_error_both", "c10_error_typed_target", "s1_nonidentity_perms"},
		Real:        realComponents,
		Simulated:   simComponents,
	}
}

// genTwinHistory: Call/Convert to pool type T0, then Call/Convert to its twin
// (a distinct type that prints the same), each from its own supplied value
// through its own converter; the two pairs share no type.
func genTwinHistory(r *simrt.RNG) world.World {
	lt := func(t int) world.Slot { return world.Slot{Label: world.Label{Type: t}} }
	var w world.World
	mk := func(tgtT, srcT int) (int, []int) {
		w.Parties = append(w.Parties, world.Party{InForm: world.FormPositional, OutForm: world.FormPositional, In: []world.Slot{lt(tgtT)}})
		tgt := len(w.Parties) - 1
		w.Parties = append(w.Parties, world.Party{InForm: world.FormPositional, OutForm: world.FormPositional, In: []world.Slot{lt(srcT)}, Out: []world.Slot{lt(tgtT)}, HasErr: r.Bool()})
		w.Args = append(w.Args, world.ArgSpec{Kind: []string{world.ArgConv, world.ArgConvFunc}[r.Intn(2)], Party: len(w.Parties) - 1})
		w.Args = append(w.Args, world.ArgSpec{Kind: world.ArgTyped, Label: world.Label{Type: srcT}})
		return tgt, []int{len(w.Args) - 2, len(w.Args) - 1}
	}
	a, b := 0, world.TwinBase
	sa, sb := 1, world.TwinBase+1
	if r.Bool() {
		a, b, sa, sb = b, a, sb, sa
	}
	for _, pr := range [][2]int{{a, sa}, {b, sb}} {
		tgt, args := mk(pr[0], pr[1])
		call := world.Op{Kind: world.OpCall, Target: tgt, Args: args}
		conv := world.Op{Kind: world.OpConvert, Type: pr[0], Args: args}
		if r.Bool() {
			w.Ops = append(w.Ops, call, conv)
		} else {
			w.Ops = append(w.Ops, conv, call)
		}
	}
	return w
}

// genErrorHistory: T = error. The simulated target is literally func(error)
// error and hands back the value it receives; a value converted to `error` is
// therefore the call's error on both sides.
func genErrorHistory(r *simrt.RNG) world.World {
	var w world.World
	lt := func(t int) world.Slot { return world.Slot{Label: world.Label{Type: t}} }
	w.Parties = append(w.Parties, world.Party{InForm: world.FormPositional, OutForm: world.FormPositional, In: []world.Slot{lt(world.ErrIface)}, HasErr: true})
	w.Faults = append(w.Faults, world.Fault{Kind: "echo_error", Party: 0, Nth: 0})
	var args []int
	if r.Bool() {
		w.Args = append(w.Args, world.ArgSpec{Kind: world.ArgTyped, Label: world.Label{Type: world.ErrImpl}})
		args = append(args, 0)
	} else {
		src := r.Intn(world.NumStruct)
		w.Parties = append(w.Parties, world.Party{InForm: world.FormPositional, OutForm: world.FormPositional, In: []world.Slot{lt(src)}, Out: []world.Slot{{Label: world.Label{Type: world.ErrImpl}}}})
		w.Args = append(w.Args, world.ArgSpec{Kind: world.ArgConv, Party: 1}, world.ArgSpec{Kind: world.ArgTyped, Label: world.Label{Type: src}})
		args = append(args, 0, 1)
	}
	call := world.Op{Kind: world.OpCall, Target: 0, Args: args}
	conv := world.Op{Kind: world.OpConvert, Type: world.ErrIface, Args: args}
	if r.Bool() {
		w.Ops = []world.Op{call, conv}
	} else {
		w.Ops = []world.Op{conv, call}
	}
	return w
}

// genStructTarget: T is a marker struct type (it embeds argmapper.Struct): func(T) T
// resolves its fields one by one, and so must Convert(T).
func genStructTarget(r *simrt.RNG) world.World {
	perm := make([]int, world.NumStruct)
	for i := range perm {
		perm[i] = i
	}
	for i := len(perm) - 1; i > 0; i-- {
		j := r.Intn(i + 1)
		perm[i], perm[j] = perm[j], perm[i]
	}
	var w world.World
	t := world.Party{InForm: world.FormStruct, OutForm: world.FormStruct}
	if r.Chance(1, 3) {
		t.InForm = world.FormPtrStruct
		t.OutForm = world.FormPtrStruct
	}
	n := 1 + r.Intn(3)
	var args []int
	for i := 0; i < n; i++ {
		l := world.Label{Type: perm[i]}
		if r.Bool() {
			l.Name = world.Names[i]
		}
		t.In = append(t.In, world.Slot{Label: l})
	}
	t.Out = append([]world.Slot{}, t.In...)
	w.Parties = append(w.Parties, t)
	missing := r.Chance(1, 4)
	for i, s := range t.In {
		if missing && i == 0 {
			continue // one field cannot be had: both entry points must fail
		}
		if r.Bool() {
			a := world.ArgSpec{Kind: world.ArgTyped, Label: s.Label}
			if s.Name != "" {
				a.Kind, a.Spell = world.ArgNamed, s.Name
			}
			w.Args = append(w.Args, a)
			args = append(args, len(w.Args)-1)
			continue
		}
		src := perm[6+i]
		w.Parties = append(w.Parties, world.Party{InForm: world.FormPositional, OutForm: world.FormPositional, In: []world.Slot{{Label: world.Label{Type: src}}}, Out: []world.Slot{{Label: world.Label{Type: s.Type}}}, HasErr: r.Bool()})
		w.Args = append(w.Args, world.ArgSpec{Kind: world.ArgConv, Party: len(w.Parties) - 1}, world.ArgSpec{Kind: world.ArgTyped, Label: world.Label{Type: src}})
		args = append(args, len(w.Args)-2, len(w.Args)-1)
	}
	call := world.Op{Kind: world.OpCall, Target: 0, Args: args}
	conv := world.Op{Kind: world.OpConvert, Target: 0, Type: -1, Args: args}
	if r.Bool() {
		w.Ops = []world.Op{call, conv}
	} else {
		w.Ops = []world.Op{conv, call}
	}
	return w
}

func (C10) Gen(r *simrt.RNG, tier string) core.Case {
	if r.Chance(1, 12) {
		return RCase{W: genTwinHistory(r)}
	}
	if r.Chance(1, 20) {
		return RCase{W: genStructTarget(r)}
	}
	if r.Chance(1, 25) {
		return RCase{W: genErrorHistory(r)}
	}
	cfg := world.SwarmCfg(r)
	world.Deepen(&cfg, r, tier)
	cfg.MaxParams = 1
	var w world.World
	if r.Chance(3, 4) {
		w = world.GenPlanned(r, cfg)
	} else {
		w = world.GenWorld(r, cfg)
	}
	// replace the target by an identity function of one (type-only) parameter
	ty := 0
	if len(w.Parties[0].In) > 0 {
		ty = w.Parties[0].In[0].Type
	}
	if r.Chance(1, 5) {
		ty = world.IfaceBase + r.Intn(world.NumIface)
	}
	if (ty == world.IfaceBase || world.Implements(ty, world.IfaceBase)) && r.Chance(1, 3) {
		// a pointer to an interface type is an ordinary concrete type: values that
		// implement the interface are not assignable to it
		ty = world.PtrIface
	}
	id := world.Party{InForm: world.FormPositional, OutForm: world.FormPositional,
		In: []world.Slot{{Label: world.Label{Type: ty}}}, Out: nil, Defaults: nil}
	args := append(append([]int{}, w.Parties[0].Defaults...), w.Ops[0].Args...)
	w.Parties[0] = id
	if r.Chance(1, 4) {
		breakWorld(r, &w)
		args = w.Ops[0].Args
	}
	// providers returning a nil struct pointer: the converted value is then the zero value
	if r.Chance(1, 4) {
		for pi := 1; pi < len(w.Parties); pi++ {
			if w.Parties[pi].OutForm == world.FormStruct && r.Bool() {
				w.Parties[pi].OutForm = world.FormPtrStruct
			}
			if w.Parties[pi].OutForm == world.FormPtrStruct {
				w.Faults = append(w.Faults, world.Fault{Kind: "nil_struct", Party: pi, Nth: 0})
			}
		}
	}
	if r.Chance(1, 10) && !world.IsIface(ty) && len(w.Parties) >= 2 {
		// a generator that reports an error for values of a type in play
		g := &world.Gen{Trigger: ty, Party: 1, Fault: 2}
		if r.Bool() && len(args) > 0 {
			if k := w.Args[args[0]].Kind; k == world.ArgTyped || k == world.ArgNamed {
				g.Trigger = w.Args[args[0]].Label.Type
			}
		}
		w.Args = append(w.Args, world.ArgSpec{Kind: world.ArgGen, Gen: g})
		args = append(append([]int{}, args...), len(w.Args)-1)
	}
	call := world.Op{Kind: world.OpCall, Target: 0, Args: args}
	conv := world.Op{Kind: world.OpConvert, Type: ty, Args: args}
	if r.Bool() {
		w.Ops = []world.Op{call, conv}
	} else {
		w.Ops = []world.Op{conv, call}
	}
	return RCase{W: w}
}

// c10Pairs splits the history into (call, convert) pairs with identical
// options and one type-only parameter of the converted type.
func c10Pairs(w world.World) ([][2]int, bool) {
	if len(w.Ops) == 0 || len(w.Ops)%2 != 0 {
		return nil, false
	}
	var pairs [][2]int
	for i := 0; i < len(w.Ops); i += 2 {
		ci, vi := i, i+1
		if w.Ops[ci].Kind == world.OpConvert {
			ci, vi = vi, ci
		}
		call, conv := w.Ops[ci], w.Ops[vi]
		if call.Kind != world.OpCall || conv.Kind != world.OpConvert {
			return nil, false
		}
		t := w.Parties[call.Target]
		if conv.Type == -1 {
			// struct target: the identity function's parameters are the fields
			if conv.Target != call.Target || len(t.Defaults) != 0 || len(t.Out) != len(t.In) {
				return nil, false
			}
			for k := range t.In {
				if t.In[k].Label != t.Out[k].Label || t.In[k].Sub != "" || world.IsIface(t.In[k].Type) {
					return nil, false
				}
			}
		} else if len(t.In) != 1 || t.In[0].Name != "" || t.In[0].Sub != "" || t.In[0].Type != conv.Type || len(t.Defaults) != 0 || t.InForm != world.FormPositional {
			return nil, false
		}
		if len(call.Args) != len(conv.Args) {
			return nil, false
		}
		for k := range call.Args {
			if call.Args[k] != conv.Args[k] {
				return nil, false
			}
		}
		pairs = append(pairs, [2]int{ci, vi})
	}
	return pairs, true
}

func c10Valid(w world.World) bool {
	pairs, ok := c10Pairs(w)
	if !ok {
		return false
	}
	for _, f := range w.Faults {
		if (f.Kind != "nil_struct" && f.Kind != "echo_error") || f.Nth != 0 {
			return false
		}
	}
	for _, a := range w.Args {
		switch a.Kind {
		case world.ArgNilOpt, world.ArgNonFunc, world.ArgNilConv:
			return false
		}
	}
	// no run-once converters: the second operation would see the first one's memo
	for _, p := range w.Parties {
		if p.Once {
			return false
		}
	}
	// twin types never meet their namesakes within one operation
	for _, pr := range pairs {
		seen := map[string]int{}
		note := func(t int) bool {
			n := world.TypeName(t)
			if o, ok := seen[n]; ok && o != t {
				return false
			}
			seen[n] = t
			return true
		}
		call := w.Ops[pr[0]]
		for _, s := range w.Parties[call.Target].In {
			if !note(s.Type) {
				return false
			}
		}
		for _, ai := range call.Args {
			a := w.Args[ai]
			switch a.Kind {
			case world.ArgNamed, world.ArgTyped:
				if !note(a.Label.Type) {
					return false
				}
			case world.ArgConv, world.ArgConvFunc:
				for _, s := range append(append([]world.Slot{}, w.Parties[a.Party].In...), w.Parties[a.Party].Out...) {
					if !note(s.Type) {
						return false
					}
				}
			case world.ArgGen:
				for _, s := range append(append([]world.Slot{}, w.Parties[a.Gen.Party].In...), w.Parties[a.Gen.Party].Out...) {
					if !note(s.Type) {
						return false
					}
				}
			}
		}
	}
	return true
}

func (C10) Decode(raw json.RawMessage) (core.Case, error) { return decodeRCase(raw) }
func (C10) Shrink(c core.Case) []core.Case                { return shrinkWorlds(c, c10Valid, false) }
func (C10) Shape(c core.Case, v core.Violation) string    { return shapeOf(c.(RCase).W, v) }

func (C10) Run(c core.Case, ctx *core.Ctx) []core.Violation {
	w := c.(RCase).W
	if !world.WellFormed(w, false) || !c10Valid(w) {
		return nil
	}
	sh := world.ShapeHash(w)
	pairs, _ := c10Pairs(w)
	var out []core.Violation
	add := func(class, detail string) {
		out = append(out, core.Violation{Class: class, Site: "Convert", Detail: detail})
	}
	for k := 0; k < ctx.NumSchedules(); k++ {
		rt, sim := execWorld(&w, ctx, k)
		if rt.InstErr != nil {
			ctx.St.Inc("inst_rejected")
			finish(ctx, rt, sim)
			return nil
		}
		nconv := 0
		for pn, pr := range pairs {
			ci, vi := pr[0], pr[1]
			ty := w.Ops[vi].Type
			w1 := w.Clone()
			w1.Ops = []world.Op{w.Ops[ci]}
			w1.Faults = nil
			stable := c05Class(&w1) != ""
			view := model.ViewOf(&w, ci)
			nconv += len(view.Convs) + len(view.GenParties)
			ctx.St.Inc("c10_pairs")
			if world.IsIface(ty) {
				ctx.St.Inc("c10_iface_target")
			}
			if ty == world.ErrIface {
				ctx.St.Inc("c10_error_typed_target")
			}
			if pn > 0 && ty >= world.TwinBase || pn > 0 && w.Ops[pairs[0][1]].Type >= world.TwinBase {
				ctx.St.Inc("c10_twin_type_pairs")
			}
			cr, vr := rt.Results[ci], rt.Results[vi]
			if ty == -1 {
				// struct target: agreement of the two entry points, and every field of the
				// returned struct carries a value the matching parameter may be given
				ctx.St.Inc("c10_struct_target")
				tp := w.Parties[w.Ops[ci].Target]
				switch {
				case !cr.Returned || !vr.Returned:
					if cr.Returned && cr.Err == nil {
						add("convert-disagrees-with-call", fmt.Sprintf("schedule %d: Call of func(S) S succeeds, Convert(S) did not return: %s", k, trunc(vr.PanicDetail)))
					} else {
						ctx.St.Inc("cross_c06_panic_or_divergence")
					}
				case stable && (cr.Err == nil) != (vr.Err == nil):
					add("convert-disagrees-with-call", fmt.Sprintf("schedule %d: struct target %s: Call -> err=%v, Convert -> err=%v", k, tp, errStr(cr.Err), errStr(vr.Err)))
				case vr.Err == nil:
					if vr.ConvNil || len(vr.Outs) != len(tp.In) {
						add("convert-returned-nil-value-without-error", fmt.Sprintf("Convert(S) returned %d field values for %d fields", len(vr.Outs), len(tp.In)))
						break
					}
					for fi, id := range vr.Outs {
						if id == 0 || id >= uint64(len(rt.Tokens)) {
							add("convert-invented-value", fmt.Sprintf("field %s of the converted struct holds token %d", tp.In[fi].Label, id))
						} else if tk := rt.Tokens[id]; !model.Permit(tk.Label, tp.In[fi].Label) {
							add("convert-mislabelled-value", fmt.Sprintf("field %s of the converted struct holds a value labelled %s", tp.In[fi].Label, tk.Label))
						}
					}
				case !vr.ConvNil:
					add("convert-returned-value-with-error", "Convert returned a non-nil value together with an error")
				}
				continue
			}
			if cr.Returned && cr.Err == nil && !vr.Returned {
				add("convert-disagrees-with-call", fmt.Sprintf("schedule %d: Call of func(%s) succeeds, Convert did not return: %s", k, world.TypeName(ty), trunc(vr.PanicDetail)))
				continue
			}
			if !cr.Returned || !vr.Returned {
				ctx.St.Inc("cross_c06_panic_or_divergence")
				continue
			}
			if vr.Err == nil {
				if vr.ConvNil && world.IsIface(ty) && rt.FaultsFired["nil_struct"] > 0 {
					// the zero value of an interface type is the nil interface
					ctx.St.Inc("c10_zero_value_converted")
				} else if vr.ConvNil || len(vr.Outs) != 1 {
					add("convert-returned-nil-value-without-error", "Convert returned (nil, nil)")
				} else {
					ctx.St.Inc("c10_value_checked")
					id := vr.Outs[0]
					if !world.Implements(vr.OutDyn[0], ty) {
						add("convert-value-not-assignable", fmt.Sprintf("value of type %s is not assignable to %s", world.TypeName(vr.OutDyn[0]), world.TypeName(ty)))
					}
					if id == 0 && rt.FaultsFired["nil_struct"] > 0 {
						ctx.St.Inc("c10_zero_value_converted")
					} else if id == 0 || id >= uint64(len(rt.Tokens)) {
						add("convert-invented-value", fmt.Sprintf("Convert returned token %d", id))
					} else if tk := rt.Tokens[id]; !model.Permit(tk.Label, world.Label{Type: ty}) {
						add("convert-mislabelled-value", fmt.Sprintf("Convert(%s) returned a value labelled %s", world.TypeName(ty), tk.Label))
					}
				}
			} else if !vr.ConvNil {
				add("convert-returned-value-with-error", "Convert returned a non-nil value together with an error")
			}
			if (cr.ErrKind == "injected") != (vr.ErrKind == "injected") {
				// the only injected errors here are generator errors, raised while the
				// (identical) options are processed: both entry points must report them
				add("convert-disagrees-with-call", fmt.Sprintf("schedule %d: a converter generator reported an error: Call -> %s, Convert -> %s", k, errStr(cr.Err), errStr(vr.Err)))
			} else if cr.ErrKind == "injected" {
				ctx.St.Inc("c10_generator_error_both")
			}
			if stable {
				switch {
				case (cr.Err == nil) != (vr.Err == nil):
					add("convert-disagrees-with-call", fmt.Sprintf("schedule %d: Call of func(%s) %s -> err=%v, Convert -> err=%v", k, world.TypeName(ty), world.TypeName(ty), errStr(cr.Err), errStr(vr.Err)))
				case cr.Err == nil:
					ctx.St.Inc("c10_both_ok")
				default:
					ctx.St.Inc("c10_both_fail")
				}
			}
		}
		if nconv > 0 {
			ctx.MarkNontrivial(sh, sim)
		}
		finish(ctx, rt, sim)
	}
	return sortViolations(out)
}

func errStr(e error) string {
	if e == nil {
		return "nil"
	}
	return trunc(e.Error())
}
