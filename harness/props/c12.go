package props

import (
	"encoding/json"
	"fmt"
	"sort"

	"verif.local/harness/core"
	"verif.local/harness/world"
	"verif.local/simrt"
)

// C12: functions, converters and options can be shared by concurrent calls.
type C12 struct{}

func (C12) ID() string { return "C12" }

func (C12) Plan(tier string) core.Plan {
	if tier == "thorough" {
		return core.Plan{Cases: 300000, Schedules: 16}
	}
	return core.Plan{Cases: 14000, Schedules: 8}
}

func (C12) Info() core.Info {
	return core.Info{
		Rule: "2-4 simulated caller threads x 1-3 operations each (Call, Convert, Redefine, calls of one shared redefined function made beforehand) over one shared target *Func, shared converter *Funcs and shared option values reused verbatim by every thread (Named, NamedSubtype, Typed, TypedSubtype, Converter, ConverterFunc, ConverterGen, FilterInput/Output, defaults given to NewFunc); targets and converters wrap ordinary functions (no FuncOnce, no BuildFunc, as the statement says). Schedules alternate: even = the same operations run sequentially (baseline of outcomes), odd = concurrent under the baton scheduler with seeded preemption (random at every yield point, at shared accesses only, targeted at the n-th shared access, none). Oracle 1: the simulator's happens-before detector (vector clocks over every woven read/write of memory reachable through a pointer, slice, captured or package-level variable, every map read/write, lock/once edges) reports no unordered conflicting pair. Oracle 2: every concurrent operation returns; on worlds whose outcome does not depend on iteration order (C05 classes) its outcome kind is one the sequential baseline produced for that operation; and every party execution satisfies the provenance invariant; the concurrent execution precedes the sequential baseline within a case; Convert target types vary per thread; some calls carry an inapplicable option; sync.Pool is simulated (LIFO, per-item happens-before). Non-trivial: >=2 threads overlapped (>=1 context switch) on >=1 shared converter or option; distinct = distinct (world shape, event-log hash)",
		Assumptions: []string{
			"the detector sees woven access forms only: party bodies, reflect, hclog and multierror internals are outside it",
			"races are properties of the happens-before relation, not of the interleaving that happened to run: one concurrent run suffices to report a pair it covers",
		},
		Probes:    []string{"c12_concurrent_runs", "c12_context_switches", "c12_shared_namedsubtype", "c12_shared_converter_func", "c12_shared_generator", "c12_redefine_ops", "c12_shared_redefined_func", "c12_mode_targeted", "c12_accesses_checked", "c12_outcomes_compared"},
		Real:      realComponents,
		Simulated: append(append([]string{}, simComponents...), "S2: simulated caller threads run one at a time under a baton; the PRNG picks who runs at every woven yield point; vector-clock race detector over woven accesses"),
	}
}

func (C12) Gen(r *simrt.RNG, tier string) core.Case {
	cfg := world.SwarmCfg(r)
	world.Deepen(&cfg, r, tier)
	cfg.Once, cfg.Built = false, false
	cfg.Subs = r.Chance(2, 3)
	cfg.Names = r.Chance(3, 4)
	cfg.Defaults = r.Chance(1, 3)
	cfg.Gens = r.Chance(1, 4)
	var w world.World
	if r.Chance(3, 4) {
		w = world.GenPlanned(r, cfg)
	} else {
		w = world.GenWorld(r, cfg)
	}
	for pi := range w.Parties {
		w.Parties[pi].Once = false
	}
	// register converters as shared *Func more often than not
	for ai := range w.Args {
		if w.Args[ai].Kind == world.ArgConv && r.Chance(2, 3) {
			w.Args[ai].Kind = world.ArgConvFunc
		}
		if w.Args[ai].Kind == world.ArgConvFunc && r.Chance(1, 4) {
			w.Args[ai].NilPad = true // ConverterFunc(nil, f, nil): nil entries are documented as ignored
		}
	}
	base := w.Ops[0].Args
	var ty int
	if len(w.Parties[0].In) > 0 {
		ty = w.Parties[0].In[0].Type
	}
	w.Threads = 2 + r.Intn(3)
	w.Ops = nil
	redef := -1
	if r.Chance(1, 4) {
		// the threads share a redefined function made beforehand on the main thread
		var sub []int
		for _, a := range base {
			if k := w.Args[a].Kind; !(k == world.ArgNamed || k == world.ArgTyped) || r.Bool() {
				sub = append(sub, a)
			}
		}
		w.Ops = append(w.Ops, world.Op{Kind: world.OpRedefine, Target: 0, Args: sub, Thread: -1})
		redef = 0
	}
	for t := 0; t < w.Threads; t++ {
		n := 1 + r.Intn(3)
		for i := 0; i < n; i++ {
			op := world.Op{Kind: world.OpCall, Target: 0, Args: base, Thread: t}
			switch r.Intn(8) {
			case 0:
				// Convert, now and then to a type this process has not converted to before
				// (whatever the library keeps per target type is then first written here)
				cty := ty
				if r.Bool() {
					cty = r.Intn(world.IfaceBase + 3)
				}
				op = world.Op{Kind: world.OpConvert, Type: cty, Args: base, Thread: t}
				if t > 0 && r.Bool() {
					// and another thread converts as well
					w.Ops = append(w.Ops, world.Op{Kind: world.OpConvert, Type: r.Intn(world.IfaceBase + 3), Args: base, Thread: t - 1})
				}
			case 1:
				op = world.Op{Kind: world.OpRedefine, Target: 0, Args: base, Thread: t}
			}
			if redef >= 0 && r.Chance(2, 3) {
				op = world.Op{Kind: world.OpCallRedef, Redef: redef, Thread: t}
			}
			if op.Kind == world.OpCall && r.Chance(1, 10) && len(base) > 1 {
				// a call that lacks something fails as unsatisfied and renders its report,
				// while the other threads are in the middle of their calls
				drop := r.Intn(len(base))
				op.Args = append(append([]int{}, base[:drop]...), base[drop+1:]...)
			} else if op.Kind == world.OpCall && r.Chance(1, 10) {
				// a call with an option that cannot be applied fails on its own; whatever it
				// had set up by then must not leak into the calls of the other threads
				w.Args = append(w.Args, world.ArgSpec{Kind: world.ArgNonFunc})
				op.Args = append(append([]int{}, base...), len(w.Args)-1)
				if r.Bool() {
					op.Thread = -1 // ...or it happened earlier, on the main thread
				}
			}
			w.Ops = append(w.Ops, op)
		}
	}
	return RCase{W: w}
}

func c12Valid(w world.World) bool {
	if w.Threads < 2 || len(w.Faults) != 0 {
		return false
	}
	for _, p := range w.Parties {
		if p.Once || p.InForm == world.FormBuilt {
			return false
		}
	}
	used := map[int]bool{}
	for _, o := range w.Ops {
		if o.Kind == world.OpCallRedef && (o.Redef < 0 || o.Redef >= len(w.Ops) || w.Ops[o.Redef].Thread >= 0) {
			return false
		}
		if o.Thread >= w.Threads {
			return false
		}
		if o.Thread >= 0 {
			used[o.Thread] = true
		}
	}
	for _, a := range w.Args {
		switch a.Kind {
		case world.ArgNilOpt, world.ArgNilConv:
			return false
		}
		if a.Kind == world.ArgGen && a.Gen.Fault != 0 {
			return false
		}
	}
	return len(used) >= 2
}

func (C12) Decode(raw json.RawMessage) (core.Case, error) { return decodeRCase(raw) }
func (C12) Shrink(c core.Case) []core.Case                { return shrinkWorlds(c, c12Valid, false) }
func (C12) Shape(c core.Case, v core.Violation) string    { return shapeOf(c.(RCase).W, v) }

func (C12) Run(c core.Case, ctx *core.Ctx) []core.Violation {
	w := c.(RCase).W
	if !world.WellFormed(w, false) || !c12Valid(w) {
		return nil
	}
	sh := world.ShapeHash(w)
	seq := w.Clone()
	seq.Threads = 0
	sharedNS, sharedCF, sharedGen := false, false, false
	for _, a := range w.Args {
		switch {
		case a.Kind == world.ArgNamed && a.Label.Sub != "":
			sharedNS = true
		case a.Kind == world.ArgConvFunc:
			sharedCF = true
		case a.Kind == world.ArgGen:
			sharedGen = true
		}
	}
	var out []core.Violation
	add := func(class, site, detail string) {
		out = append(out, core.Violation{Class: class, Site: site, Detail: detail})
	}
	baseline := make([]map[string]bool, len(w.Ops))
	for i := range baseline {
		baseline[i] = map[string]bool{}
	}
	kinds := func(res *world.OpResult) string {
		if res == nil {
			return "none"
		}
		if !res.Returned {
			return "no-return"
		}
		return "err=" + res.ErrKind
	}
	type pending struct {
		k    int
		op   int
		kind string
	}
	var conc []pending
	for k := 0; k < ctx.NumSchedules(); k++ {
		// the concurrent execution goes first: state the library keeps per process (were
		// there any) is then first touched by racing threads, not by the sequential baseline
		if k%2 == 1 {
			rt, sim := execWorld(&seq, ctx, k)
			if rt.InstErr != nil {
				ctx.St.Inc("inst_rejected")
				finish(ctx, rt, sim)
				return nil
			}
			for oi, res := range rt.Results {
				baseline[oi][kinds(res)] = true
			}
			finish(ctx, rt, sim)
			continue
		}
		rt, sim := execWorld(&w, ctx, k)
		if rt.InstErr != nil {
			ctx.St.Inc("inst_rejected")
			finish(ctx, rt, sim)
			return nil
		}
		ctx.St.Inc("c12_concurrent_runs")
		ctx.St.Add("c12_context_switches", sim.Switches)
		ctx.St.Add("c12_accesses_checked", sim.AccessCount())
		if sim.ThreadMode() == simrt.PreemptTargeted {
			ctx.St.Inc("c12_mode_targeted")
		}
		if sharedNS {
			ctx.St.Inc("c12_shared_namedsubtype")
		}
		if sharedCF {
			ctx.St.Inc("c12_shared_converter_func")
		}
		if sharedGen {
			ctx.St.Inc("c12_shared_generator")
		}
		for _, rc := range sim.Races() {
			a, b := siteOf(rc.SiteA), siteOf(rc.SiteB)
			fa, fb := a.Func, b.Func
			if fb < fa {
				fa, fb = fb, fa
			}
			site := fa
			if fb != fa {
				site = fa + "|" + fb
			}
			add("data-race", site, fmt.Sprintf("%s race on %s between thread %d at %s:%d (%s %s) and thread %d at %s:%d (%s %s)",
				rc.Kind, rc.What, rc.ThreadA, a.File, a.Line, a.Kind, a.Expr, rc.ThreadB, b.File, b.Line, b.Kind, b.Expr))
		}
		for oi, res := range rt.Results {
			if w.Ops[oi].Kind == world.OpRedefine {
				ctx.St.Inc("c12_redefine_ops")
			}
			if w.Ops[oi].Kind == world.OpCallRedef && res != nil && res.ErrKind != "skipped" {
				ctx.St.Inc("c12_shared_redefined_func")
			}
			if res != nil && !res.Returned {
				add(res.PanicClass, res.PanicSite, fmt.Sprintf("concurrent op %d (%s, thread %d) did not return: %s", oi, w.Ops[oi].Kind, w.Ops[oi].Thread, trunc(res.PanicDetail)))
				continue
			}
			conc = append(conc, pending{k, oi, kinds(res)})
		}
		for _, on := range rt.Online {
			site := "Call"
			if on.Op >= 0 && on.Op < len(w.Ops) {
				site = opSite(w.Ops[on.Op].Kind)
			}
			add("concurrent-"+on.Class, site, on.Detail)
		}
		if sim.Switches > 0 && (sharedCF || sharedNS || sharedGen || len(w.Args) > 0) {
			ctx.MarkNontrivial(sh, sim)
		}
		finish(ctx, rt, sim)
	}
	for _, p := range conc {
		// outcome kinds are comparable only where they do not depend on iteration order
		w1 := seq.Clone()
		w1.Ops = []world.Op{seq.Ops[p.op]}
		if w1.Ops[0].Kind != world.OpCall || c05Class(&w1) == "" {
			continue
		}
		ctx.St.Inc("c12_outcomes_compared")
		if !baseline[p.op][p.kind] {
			var have []string
			for k := range baseline[p.op] { // order-insensitive: sorted below
				have = append(have, k)
			}
			sort.Strings(have)
			add("concurrent-outcome-not-sequentially-possible", opSite(w.Ops[p.op].Kind), fmt.Sprintf("schedule %d: op %d (thread %d) ended with %s; run sequentially under %d schedules it only ever ended with %v", p.k, p.op, w.Ops[p.op].Thread, p.kind, ctx.NumSchedules()/2, have))
		}
	}
	return sortViolations(out)
}
