package props

import (
	"encoding/json"
	"fmt"

	"verif.local/harness/core"
	"verif.local/harness/model"
	"verif.local/harness/world"
	"verif.local/simrt"
)

// C03: exact matches win, no conversion.
type C03 struct{}

func (C03) ID() string { return "C03" }

func (C03) Plan(tier string) core.Plan {
	if tier == "thorough" {
		return core.Plan{Cases: 600000, Schedules: 24}
	}
	return core.Plan{Cases: 50000, Schedules: 8}
}

func (C03) Info() core.Info {
	return core.Info{
		Rule:        "targets with 1-4 parameters of concrete types (named / type-only, with and without subtype, struct / pointer-struct / positional / built forms); for every parameter an exactly keyed supplied value; the same Func is called 1-3 times with fresh instances of the supplied values; then 0-8 distractors: same-typed values under other names and subtypes, type-only duplicates, providers and converters (type-only and name-using, run-once, generated, cyclic) that could also produce each parameter; each world under 8-24 seeded iteration-order schedules incl. adversarial single-site orders. Oracle: no error, no converter executed, each named parameter holds the token supplied under exactly its key, each type-only parameter a supplied token of exactly its type; positional targets may repeat a type; unnamed array types and embedded-type parameters occur; a refused construction is a violation. Non-trivial: at least one distractor converter could produce a parameter; distinct = distinct (world shape, event-log hash)",
		Assumptions: []string{"parameters have concrete types (an interface-typed parameter cannot have an exactly keyed supply)"},
		Probes:      []string{"c03_calls", "c03_repeated_calls", "c03_distractor_could_produce", "c03_same_type_other_name", "c03_typeonly_params", "s1_nonidentity_perms"},
		Real:        realComponents,
		Simulated:   simComponents,
	}
}

func c03Valid(w world.World) bool {
	if len(w.Ops) == 0 || len(w.Faults) != 0 {
		return false
	}
	for oi, o := range w.Ops {
		if o.Kind != world.OpCall || o.Target != w.Ops[0].Target {
			return false
		}
		v := model.ViewOf(&w, oi)
		if v.HasNilOpt || v.HasBadConv {
			return false
		}
		t := w.Parties[o.Target]
		if len(t.In) == 0 {
			return false
		}
		for _, s := range t.In {
			if world.IsIface(s.Type) {
				return false
			}
			found := false
			for _, l := range v.Supplied {
				if l == s.Label {
					found = true
				}
			}
			if !found {
				return false
			}
		}
	}
	// run-once distractors would legitimately carry values from call to call
	for _, p := range w.Parties {
		if p.Once {
			return false
		}
	}
	return true
}

func (C03) Gen(r *simrt.RNG, tier string) core.Case {
	cfg := world.SwarmCfg(r)
	world.Deepen(&cfg, r, tier)
	cfg.Ifaces = false
	cfg.RepeatPos = r.Chance(1, 5) // func(a, b T): two parameters, one key
	cfg.Arrays = r.Chance(1, 6)
	w := world.GenExact(r, cfg)
	// a parameter declared by embedding its type, supplied under the type's name
	if t := &w.Parties[0]; (t.InForm == world.FormStruct || t.InForm == world.FormPtrStruct) && r.Chance(1, 8) {
		used := map[int]bool{}
		for _, p := range w.Parties {
			for _, sl := range append(append([]world.Slot{}, p.In...), p.Out...) {
				used[sl.Type] = true
			}
		}
		for _, a := range w.Args {
			used[a.Label.Type] = true
		}
		for ty := 6; ty < world.NumStruct; ty++ {
			if !used[ty] {
				l := world.Label{Name: fmt.Sprintf("t%d", ty), Type: ty}
				t.In = append(append([]world.Slot{}, t.In...), world.Slot{Label: l})
				w.Args = append(w.Args, world.ArgSpec{Kind: world.ArgNamed, Label: l, Spell: world.RandomCase(r, l.Name)})
				w.Ops[0].Args = append(append([]int{}, w.Ops[0].Args...), len(w.Args)-1)
				break
			}
		}
	}
	// call the same Func again with fresh instances of the supplied values
	n := r.Intn(3)
	for i := 0; i < n; i++ {
		var args []int
		for _, a := range w.Ops[0].Args {
			if k := w.Args[a].Kind; k == world.ArgNamed || k == world.ArgTyped {
				w.Args = append(w.Args, w.Args[a])
				args = append(args, len(w.Args)-1)
			} else {
				args = append(args, a)
			}
		}
		w.Ops = append(w.Ops, world.Op{Kind: world.OpCall, Target: 0, Args: args})
	}
	return RCase{W: w}
}

func (C03) Decode(raw json.RawMessage) (core.Case, error) { return decodeRCase(raw) }
func (C03) Shrink(c core.Case) []core.Case                { return shrinkWorlds(c, c03Valid, true) }
func (C03) Shape(c core.Case, v core.Violation) string    { return shapeOf(c.(RCase).W, v) }

func (C03) Run(c core.Case, ctx *core.Ctx) []core.Violation {
	w := c.(RCase).W
	if !world.WellFormed(w, true) || !c03Valid(w) {
		return nil
	}
	sh := world.ShapeHash(w)
	view := model.ViewOf(&w, 0)
	tgt := w.Ops[0].Target
	t := w.Parties[tgt]
	// probes on the world
	couldProduce, otherName := false, false
	for _, pi := range append(append([]int{}, view.Convs...), view.GenParties...) {
		for _, o := range w.Parties[pi].Out {
			for _, s := range t.In {
				if model.Permit(o.Label, s.Label) {
					couldProduce = true
				}
			}
		}
	}
	for _, l := range view.Supplied {
		for _, s := range t.In {
			if l.Type == s.Type && l != s.Label {
				otherName = true
			}
		}
	}
	var out []core.Violation
	add := func(class, detail string) {
		out = append(out, core.Violation{Class: class, Site: "Call", Detail: detail})
	}
	for k := 0; k < ctx.NumSchedules(); k++ {
		rt, sim := execWorld(&w, ctx, k)
		if rt.InstErr != nil {
			// nothing in these worlds is malformed: a constructor that refuses one of its
			// functions or value lists has refused legal input
			ctx.St.Inc("inst_rejected")
			finish(ctx, rt, sim)
			return []core.Violation{{Class: "construction-refused", Site: "NewFunc", Detail: "a constructor returned an error for well-formed input: " + trunc(rt.InstErr.Error())}}
		}
		for oi, res := range rt.Results {
			if res == nil {
				continue
			}
			view := model.ViewOf(&w, oi)
			ctx.St.Inc("c03_calls")
			if oi > 0 {
				ctx.St.Inc("c03_repeated_calls")
			}
			if couldProduce {
				ctx.St.Inc("c03_distractor_could_produce")
			}
			if otherName {
				ctx.St.Inc("c03_same_type_other_name")
			}
			switch {
			case !res.Returned:
				// "Call succeeds": a call that does not return has not
				out = append(out, core.Violation{Class: res.PanicClass, Site: res.PanicSite, Detail: "every parameter has an exactly keyed value but Call did not return: " + trunc(res.PanicDetail)})
			case res.Err != nil:
				add("exact-match-call-failed", fmt.Sprintf("every parameter has an exactly keyed value but Call failed (%s): %.200s", res.ErrKind, res.Err.Error()))
			default:
				var texec *world.ExecRec
				for i := res.LogFrom; i < res.LogTo; i++ {
					rec := &rt.Log[i]
					if rec.Party != tgt {
						add("converter-executed-despite-exact-matches", fmt.Sprintf("party %d (%s) was executed although every parameter had an exact value", rec.Party, rt.Parties[rec.Party]))
					} else {
						texec = rec
					}
				}
				if texec == nil {
					add("target-not-executed", "Call returned no error but the target did not run")
					break
				}
				suppliedNow := rt.SuppliedTokens(oi)
				for i, s := range t.In {
					id := texec.In[i]
					if id == 0 || id >= uint64(len(rt.Tokens)) {
						add("exact-param-wrong-value", fmt.Sprintf("parameter %s received token %d", s.Label, id))
						continue
					}
					tk := rt.Tokens[id]
					if tk.Kind == world.TokSupplied && !suppliedNow[id] {
						add("exact-param-wrong-value", fmt.Sprintf("op %d: parameter %s received %s, a value supplied to an earlier call, not to this one", oi, s.Label, describeTok(tk)))
						continue
					}
					if s.Name != "" {
						// must be the value supplied under exactly this key (the last one)
						want := uint64(0)
						for j, l := range view.Supplied {
							if l == s.Label {
								want = rt.ArgTok[view.SupArgs[j]]
							}
						}
						if id != want {
							add("exact-param-wrong-value", fmt.Sprintf("named parameter %s received %s labelled %s instead of the value supplied under its key", s.Label, describeTok(tk), tk.Label))
						}
					} else {
						ctx.St.Inc("c03_typeonly_params")
						if tk.Kind != world.TokSupplied || tk.Label.Type != s.Type {
							add("exact-param-wrong-value", fmt.Sprintf("type-only parameter %s received %s labelled %s, not a supplied value of exactly its type", s.Label, describeTok(tk), tk.Label))
						}
					}
				}
			}
		}
		if couldProduce {
			ctx.MarkNontrivial(sh, sim)
		}
		finish(ctx, rt, sim)
	}
	return sortViolations(out)
}

func describeTok(tk world.Token) string {
	if tk.Kind == world.TokSupplied {
		return fmt.Sprintf("token %d (supplied, option %d)", tk.ID, tk.Arg)
	}
	return fmt.Sprintf("token %d (produced by party %d exec %d)", tk.ID, tk.Party, tk.Exec)
}
