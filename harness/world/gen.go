package world

import (
	"strings"

	"verif.local/simrt"
)

// GenCfg are the swarm knobs of the general world generator.
type GenCfg struct {
	MaxTypes    int // size of the type universe of this world
	MaxConvs    int
	MaxSupplied int
	MaxParams   int
	Names       bool // named slots / values
	Subs        bool // subtype labels
	Ifaces      bool
	Ptrs        bool
	Arrays      bool // two unnamed array types join the universe (set per property, not by SwarmCfg)
	Providers   bool // zero-input converters
	MultiIn     bool // converters with 2-3 inputs
	MultiOut    bool
	Structs     bool // struct / pointer-struct forms
	Built       bool // BuildFunc parties
	Gens        bool // converter generators
	Once        bool
	RepeatPos   bool // positional parameter lists may repeat a type (C06 only)
	Defaults    bool // some options given as NewFunc defaults
	Distractors bool
	MultiHeavy  bool // planned worlds: most converters take two inputs
}

// SwarmCfg draws a configuration: every feature is on in roughly half the runs.
func SwarmCfg(r *simrt.RNG) GenCfg {
	return GenCfg{
		MaxTypes: 2 + r.Intn(5), MaxConvs: r.Intn(7), MaxSupplied: 1 + r.Intn(4), MaxParams: 1 + r.Intn(4),
		Names: r.Bool(), Subs: r.Chance(2, 5), Ifaces: r.Chance(1, 3), Ptrs: r.Chance(1, 4),
		Providers: r.Chance(1, 3), MultiIn: r.Bool(), MultiOut: r.Chance(1, 3), Structs: r.Chance(2, 3),
		Built: r.Chance(1, 4), Gens: r.Chance(1, 6), Once: r.Chance(1, 5), Defaults: r.Chance(1, 5),
	}
}

// Deepen enlarges a third of the thorough tier's worlds beyond what the quick tier
// ever builds (more types, converters, parameters, supplied values). It draws from
// r only in the thorough tier, so quick-tier case streams are unaffected.
func Deepen(cfg *GenCfg, r *simrt.RNG, tier string) {
	if tier != "thorough" || !r.Chance(1, 3) {
		return
	}
	cfg.MaxTypes = 4 + r.Intn(6)
	cfg.MaxConvs = 4 + r.Intn(8)
	cfg.MaxSupplied = 2 + r.Intn(5)
	cfg.MaxParams = 2 + r.Intn(5)
}

type genState struct {
	r    *simrt.RNG
	cfg  GenCfg
	univ []int // concrete types in play
	ifs  []int // interface types in play
}

func newGenState(r *simrt.RNG, cfg GenCfg) *genState {
	g := &genState{r: r, cfg: cfg}
	n := cfg.MaxTypes
	if n < 1 {
		n = 1
	}
	perm := make([]int, NumStruct)
	for i := range perm {
		perm[i] = i
	}
	for i := len(perm) - 1; i > 0; i-- {
		j := r.Intn(i + 1)
		perm[i], perm[j] = perm[j], perm[i]
	}
	g.univ = append(g.univ, perm[:n]...)
	if cfg.Ptrs {
		g.univ = append(g.univ, PtrBase+r.Intn(NumPtr))
	}
	if cfg.Arrays {
		g.univ = append(g.univ, ArrA, ArrB)
	}
	if cfg.Ifaces {
		it := IfaceBase + r.Intn(NumIface)
		g.ifs = append(g.ifs, it)
		// make sure an implementor is in play
		im := Implementors(it)
		g.univ = append(g.univ, im[r.Intn(len(im))])
	}
	return g
}

func (g *genState) concrete() int { return g.univ[g.r.Intn(len(g.univ))] }

func (g *genState) paramType() int {
	if len(g.ifs) > 0 && g.r.Chance(1, 4) {
		return g.ifs[g.r.Intn(len(g.ifs))]
	}
	return g.concrete()
}

func (g *genState) name() string {
	if g.r.Chance(1, 12) {
		return Names[6+g.r.Intn(3)] // a name whose upper-case form is not ASCII; the name "-"; a name spelled like an option
	}
	return Names[g.r.Intn(4)]
}

func (g *genState) sub() string {
	if g.cfg.Subs && g.r.Chance(1, 3) {
		if g.r.Chance(1, 5) {
			if g.r.Chance(1, 3) {
				return Subs[3] // "S1": differs from "s1" by case only
			}
			return Subs[3+g.r.Intn(5)] // an oddity: "S1", "p%d", "k=v", "k" (a prefix of the former up to its equals sign), "t " (trailing blank)
		}
		return Subs[g.r.Intn(2)]
	}
	return ""
}

// slots draws a slot list that is well-formed in the sense of C06: no repeated
// name, no repeated (type, subtype) key among type-only slots.
func (g *genState) slots(n int, form int, output bool) []Slot {
	var out []Slot
	usedName := map[string]bool{}
	usedKey := map[[2]string]bool{}
	for tries := 0; len(out) < n && tries < 40; tries++ {
		var s Slot
		if output && len(g.ifs) > 0 && g.r.Chance(1, 6) {
			s.Type = g.ifs[g.r.Intn(len(g.ifs))]
			im := Implementors(s.Type)
			s.Impl = im[g.r.Intn(len(im))]
		} else if output {
			s.Type = g.concrete()
		} else {
			s.Type = g.paramType()
		}
		if form != FormPositional {
			if g.cfg.Names && g.r.Chance(1, 2) {
				s.Name = g.name()
				s.Spell = g.r.Intn(3)
			}
			if g.r.Chance(1, 6) {
				s.Spell += 3 * g.r.Intn(7) // tag variants (see structTypeOf)
			}
			s.Sub = g.sub()
		}
		if s.Name != "" {
			if usedName[s.Name] {
				continue
			}
			usedName[s.Name] = true
		} else {
			k := [2]string{TypeName(s.Type), s.Sub}
			if usedKey[k] && !(form == FormPositional && g.cfg.RepeatPos) {
				continue
			}
			usedKey[k] = true
		}
		out = append(out, s)
	}
	return out
}

func (g *genState) form() int {
	if g.cfg.Built && g.r.Chance(1, 4) {
		return FormBuilt
	}
	if g.cfg.Structs && g.r.Chance(1, 2) {
		if g.r.Chance(1, 3) {
			return FormPtrStruct
		}
		return FormStruct
	}
	return FormPositional
}

func (g *genState) party(nin, nout int, hasErr bool) Party {
	p := Party{HasErr: hasErr}
	p.InForm = g.form()
	if p.InForm == FormBuilt {
		p.OutForm = FormBuilt
		p.HasErr = true
	} else {
		p.OutForm = g.form()
		if p.OutForm == FormBuilt {
			p.OutForm = FormStruct
		}
	}
	p.In = g.slots(nin, p.InForm, false)
	p.Out = g.slots(nout, p.OutForm, true)
	return p
}

// GenWorld draws a general world with one Call operation on party 0.
func GenWorld(r *simrt.RNG, cfg GenCfg) World {
	g := newGenState(r, cfg)
	var w World
	// target
	t := g.party(1+r.Intn(cfg.MaxParams), r.Intn(3), r.Bool())
	t.Once = false
	w.Parties = append(w.Parties, t)
	// converters
	nconv := 0
	if cfg.MaxConvs > 0 {
		nconv = r.Intn(cfg.MaxConvs + 1)
	}
	for i := 0; i < nconv; i++ {
		nin := 1
		switch {
		case cfg.Providers && r.Chance(1, 5):
			nin = 0
		case cfg.MultiIn && r.Chance(1, 3):
			nin = 2 + r.Intn(2)
		}
		nout := 1
		if cfg.MultiOut && r.Chance(1, 3) {
			nout = 2
		}
		c := g.party(nin, nout, r.Bool())
		if len(c.Out) == 0 {
			continue
		}
		if cfg.Once && r.Chance(1, 3) {
			c.Once = true
		}
		w.Parties = append(w.Parties, c)
	}
	var callArgs []int
	// supplied values
	ns := r.Intn(cfg.MaxSupplied + 1)
	for i := 0; i < ns; i++ {
		a := ArgSpec{Label: Label{Type: g.concrete(), Sub: g.sub()}}
		if cfg.Names && r.Chance(1, 2) {
			a.Kind = ArgNamed
			a.Label.Name = g.name()
			a.Spell = RandomCase(r, a.Label.Name)
		} else {
			a.Kind = ArgTyped
		}
		w.Args = append(w.Args, a)
		ai := len(w.Args) - 1
		if cfg.Defaults && r.Chance(1, 3) {
			w.Parties[0].Defaults = append(w.Parties[0].Defaults, ai)
		} else {
			callArgs = append(callArgs, ai)
		}
	}
	// converter registrations
	for pi := 1; pi < len(w.Parties); pi++ {
		p := w.Parties[pi]
		a := ArgSpec{Party: pi}
		switch {
		case p.Once || p.InForm == FormBuilt || r.Chance(1, 2):
			a.Kind = ArgConvFunc
			a.NilPad = r.Chance(1, 5)
		default:
			a.Kind = ArgConv
		}
		if cfg.Gens && r.Chance(1, 3) && len(p.In) > 0 {
			// offered by a generator, triggered by a type in play
			a = ArgSpec{Kind: ArgGen, Gen: &Gen{Trigger: g.concrete(), Party: pi, InheritSub: cfg.Subs && r.Chance(1, 2)}}
		}
		w.Args = append(w.Args, a)
		callArgs = append(callArgs, len(w.Args)-1)
	}
	// shuffle the option order
	for i := len(callArgs) - 1; i > 0; i-- {
		j := r.Intn(i + 1)
		callArgs[i], callArgs[j] = callArgs[j], callArgs[i]
	}
	w.Ops = []Op{{Kind: OpCall, Target: 0, Args: callArgs}}
	return w
}

// RandomCase upper-cases a random subset of the letters of n.
func RandomCase(r *simrt.RNG, n string) string {
	rs := []rune(n)
	for i := range rs {
		if r.Chance(1, 3) {
			rs[i] = []rune(strings.ToUpper(string(rs[i])))[0]
		}
	}
	return string(rs)
}

// ShapeHash is a structural hash of a world (labels, forms, options, ops).
func ShapeHash(w World) uint64 {
	h := uint64(14695981039346656037)
	mix := func(x uint64) { h = (h ^ x) * 1099511628211 }
	ms := func(s string) {
		for i := 0; i < len(s); i++ {
			mix(uint64(s[i]))
		}
		mix(0xff)
	}
	ml := func(l Label) { ms(l.Name); mix(uint64(l.Type)); ms(l.Sub) }
	for _, p := range w.Parties {
		mix(uint64(p.InForm*16 + p.OutForm))
		for _, s := range p.In {
			ml(s.Label)
		}
		mix(0xfe)
		for _, s := range p.Out {
			ml(s.Label)
		}
		if p.Once {
			mix(3)
		}
		if p.HasErr {
			mix(5)
		}
		for _, d := range p.Defaults {
			mix(uint64(d))
		}
	}
	for _, a := range w.Args {
		ms(a.Kind)
		ml(a.Label)
		mix(uint64(a.Party))
		if a.Gen != nil {
			mix(uint64(a.Gen.Trigger*64 + a.Gen.Party))
		}
		for _, f := range a.Filter {
			mix(uint64(f))
		}
	}
	for _, o := range w.Ops {
		ms(o.Kind)
		mix(uint64(o.Target*1000 + o.Type))
		for _, a := range o.Args {
			mix(uint64(a))
		}
		mix(uint64(o.Thread))
	}
	for _, f := range w.Faults {
		ms(f.Kind)
		mix(uint64(f.Party*100 + f.Nth))
	}
	return h
}

// ---- planned (derivable by construction) worlds ----

// compatible draws a label that the documentation promises will satisfy
// parameter p (so the world is derivable by construction). output=true draws
// labels a converter output slot can carry.
func (g *genState) compatible(p Label, structForm bool) Label {
	r := g.r
	s := p
	if IsIface(p.Type) {
		im := Implementors(p.Type)
		s = Label{Type: im[r.Intn(len(im))]}
		if (p.Type == IfaceBase || p.Type == IfaceBase+1) && r.Chance(1, 6) {
			return Label{Type: IfaceWide} // declared as a wider interface that implements this one
		}
		if p.Name != "" && p.Sub == "" && structForm && r.Chance(1, 3) {
			s.Name = p.Name // a same-named value of an implementing type
			if g.cfg.Subs && r.Chance(1, 3) {
				s.Sub = Subs[r.Intn(2)] // "any subtype when the parameter does not specify one"
			}
			return s
		}
		if !structForm || r.Chance(1, 2) {
			return s
		}
		return Label{Type: p.Type, Name: p.Name, Sub: p.Sub} // identical interface type
	}
	if !structForm {
		return Label{Type: p.Type}
	}
	switch {
	case p.Name != "" && p.Sub == "":
		switch r.Intn(4) {
		case 0:
			if g.cfg.Subs {
				s.Sub = Subs[r.Intn(2)]
			}
		case 1:
			s.Name = ""
		}
	case p.Name == "" && p.Sub == "":
		switch r.Intn(4) {
		case 0:
			if g.cfg.Subs {
				s.Sub = Subs[r.Intn(2)]
			}
		case 1:
			if g.cfg.Names {
				s.Name = g.name()
			}
		}
	case p.Name == "" && p.Sub != "":
		if g.cfg.Names && r.Chance(1, 3) {
			s.Name = g.name()
		}
	}
	return s
}

// GenPlanned builds a world in which every target parameter is derivable by
// construction (direct supply or a chain of converters of PRNG-chosen depth),
// then adds noise: unrelated converters, reverse converters (cycles), extra
// supplies.
func GenPlanned(r *simrt.RNG, cfg GenCfg) World {
	g := newGenState(r, cfg)
	var w World
	t := g.party(1+r.Intn(cfg.MaxParams), r.Intn(3), r.Bool())
	w.Parties = append(w.Parties, t)
	var callArgs []int
	supply := func(l Label) {
		a := ArgSpec{Label: l}
		if IsIface(a.Label.Type) {
			a.Label.Type = Implementors(a.Label.Type)[0]
		}
		if l.Name != "" {
			a.Kind = ArgNamed
			a.Spell = RandomCase(r, l.Name)
		} else {
			a.Kind = ArgTyped
		}
		w.Args = append(w.Args, a)
		ai := len(w.Args) - 1
		if cfg.Defaults && r.Chance(1, 4) {
			w.Parties[0].Defaults = append(w.Parties[0].Defaults, ai)
		} else {
			callArgs = append(callArgs, ai)
		}
	}
	budget := 1 + cfg.MaxConvs
	var satisfy func(p Label, depth int)
	satisfy = func(p Label, depth int) {
		if depth <= 0 || budget <= 0 || r.Chance(1, 3) {
			supply(g.compatible(p, cfg.Names || cfg.Subs))
			return
		}
		budget--
		c := Party{HasErr: r.Bool()}
		c.InForm = g.form()
		if c.InForm == FormBuilt {
			c.OutForm, c.HasErr = FormBuilt, true
		} else {
			c.OutForm = g.form()
			if c.OutForm == FormBuilt {
				c.OutForm = FormStruct
			}
		}
		ol := g.compatible(p, c.OutForm != FormPositional)
		os := Slot{Label: ol}
		if IsIface(ol.Type) {
			im := Implementors(ol.Type)
			os.Impl = im[r.Intn(len(im))]
		}
		c.Out = []Slot{os}
		if os.Name == "" && os.Sub != "" && c.OutForm != FormPositional && !IsIface(os.Type) && r.Chance(1, 3) {
			// a sibling type-only output of the same type under another subtype
			sib := Slot{Label: Label{Type: os.Type, Sub: Subs[0]}}
			if os.Sub == Subs[0] {
				sib.Sub = Subs[1]
			}
			if r.Bool() {
				c.Out = []Slot{os, sib}
			} else {
				c.Out = []Slot{sib, os}
			}
		}
		if len(c.Out) == 1 && cfg.MultiOut && r.Chance(1, 4) {
			extra := g.slots(1, c.OutForm, true)
			if len(extra) == 1 && !(extra[0].Name == os.Name && os.Name != "") && !(extra[0].Name == "" && os.Name == "" && extra[0].Type == os.Type) {
				c.Out = append(c.Out, extra[0])
			}
		}
		nin := 1
		switch {
		case cfg.Providers && r.Chance(1, 6):
			nin = 0
		case cfg.MultiIn && (r.Chance(1, 3) || (cfg.MultiHeavy && r.Chance(1, 2))):
			nin = 2
		}
		c.In = g.slots(nin, c.InForm, false)
		if cfg.Once && r.Chance(1, 4) {
			c.Once = true
		}
		w.Parties = append(w.Parties, c)
		pi := len(w.Parties) - 1
		a := ArgSpec{Party: pi, Kind: ArgConv}
		if c.Once || c.InForm == FormBuilt || r.Chance(1, 2) {
			a.Kind = ArgConvFunc
		}
		w.Args = append(w.Args, a)
		callArgs = append(callArgs, len(w.Args)-1)
		for _, in := range c.In {
			satisfy(in.Label, depth-1)
		}
	}
	for _, p := range t.In {
		satisfy(p.Label, r.Intn(4))
	}
	// noise
	if cfg.Distractors || (!cfg.MultiIn && r.Chance(1, 2)) {
		nn := r.Intn(3)
		for i := 0; i < nn; i++ {
			c := g.party(1, 1, r.Bool())
			if len(c.Out) == 0 {
				continue
			}
			w.Parties = append(w.Parties, c)
			w.Args = append(w.Args, ArgSpec{Party: len(w.Parties) - 1, Kind: ArgConvFunc})
			callArgs = append(callArgs, len(w.Args)-1)
		}
		// reverse converters: cycles
		if r.Chance(1, 2) {
			n := len(w.Parties)
			for pi := 1; pi < n; pi++ {
				p := w.Parties[pi]
				if len(p.In) == 1 && len(p.Out) >= 1 && r.Chance(1, 2) && !IsIface(p.Out[0].Type) {
					rev := Party{InForm: FormPositional, OutForm: FormPositional, In: []Slot{{Label: Label{Type: p.Out[0].Type}}}, Out: []Slot{{Label: Label{Type: p.In[0].Type}}}, HasErr: r.Bool()}
					if IsIface(rev.Out[0].Type) {
						rev.Out[0].Impl = Implementors(rev.Out[0].Type)[0]
					}
					w.Parties = append(w.Parties, rev)
					w.Args = append(w.Args, ArgSpec{Party: len(w.Parties) - 1, Kind: ArgConv})
					callArgs = append(callArgs, len(w.Args)-1)
				}
			}
		}
		if r.Chance(1, 3) {
			supply(Label{Type: g.concrete(), Sub: g.sub()})
		}
	}
	for i := len(callArgs) - 1; i > 0; i-- {
		j := r.Intn(i + 1)
		callArgs[i], callArgs[j] = callArgs[j], callArgs[i]
	}
	w.Ops = []Op{{Kind: OpCall, Target: 0, Args: callArgs}}
	return w
}

// GenExact builds an exact-match world (C03, C16): every target parameter has
// a supplied value with exactly its key; then distractors are added.
func GenExact(r *simrt.RNG, cfg GenCfg) World {
	cfg.Ifaces = false
	g := newGenState(r, cfg)
	var w World
	t := g.party(1+r.Intn(cfg.MaxParams), r.Intn(2), r.Bool())
	for len(t.In) == 0 {
		t = g.party(1+r.Intn(cfg.MaxParams), r.Intn(2), r.Bool())
	}
	w.Parties = append(w.Parties, t)
	var callArgs []int
	supply := func(l Label) {
		a := ArgSpec{Label: l, Kind: ArgTyped}
		if l.Name != "" {
			a.Kind = ArgNamed
			a.Spell = RandomCase(r, l.Name)
		}
		w.Args = append(w.Args, a)
		callArgs = append(callArgs, len(w.Args)-1)
	}
	for _, s := range t.In {
		supply(s.Label)
	}
	exact := map[Label]bool{}
	for _, s := range t.In {
		exact[s.Label] = true
	}
	// a key is what the option maps are keyed by: (name, subtype) or (type, subtype)
	keyOf := func(l Label) [3]string {
		if l.Name != "" {
			return [3]string{"n", l.Name, l.Sub}
		}
		return [3]string{"t", TypeName(l.Type), l.Sub}
	}
	keys := map[[3]string]bool{}
	for l := range exact { // order-insensitive: builds a set
		keys[keyOf(l)] = true
	}
	nd := r.Intn(9)
	for i := 0; i < nd; i++ {
		p := t.In[r.Intn(len(t.In))].Label
		switch r.Intn(8) {
		case 7: // the parameter's own key with the subtype toggled: a distinct key, never the exact one
			l := p
			if l.Sub == "" {
				l.Sub = Subs[r.Intn(2)]
			} else {
				l.Sub = ""
			}
			if IsIface(l.Type) || keys[keyOf(l)] {
				continue
			}
			keys[keyOf(l)] = true
			supply(l)
		case 0, 1: // same-typed value under another name / subtype
			l := Label{Type: p.Type, Name: g.name(), Sub: g.sub()}
			if !cfg.Names {
				l.Name = ""
			}
			if keys[keyOf(l)] {
				continue
			}
			keys[keyOf(l)] = true
			supply(l)
		case 2: // converter producing the parameter from something supplied
			src := t.In[r.Intn(len(t.In))].Label
			c := Party{InForm: FormPositional, OutForm: FormPositional, In: []Slot{{Label: Label{Type: src.Type}}}, Out: []Slot{{Label: Label{Type: p.Type}}}, HasErr: r.Bool()}
			if p.Name != "" && cfg.Structs && r.Bool() {
				c.OutForm = FormStruct
				c.Out[0].Label = p
			}
			w.Parties = append(w.Parties, c)
			w.Args = append(w.Args, ArgSpec{Kind: ArgConv, Party: len(w.Parties) - 1})
			callArgs = append(callArgs, len(w.Args)-1)
		case 3: // provider of the parameter (or, for a type-only one, of a named value of its type)
			c := Party{InForm: FormPositional, OutForm: FormStruct, Out: []Slot{{Label: p}}, HasErr: r.Bool(), Once: cfg.Once && r.Bool()}
			if p.Name == "" && p.Sub == "" && r.Bool() {
				c.OutForm = FormPositional
			} else if p.Name == "" && r.Bool() {
				c.Out[0].Name = Names[4+r.Intn(2)]
			}
			w.Parties = append(w.Parties, c)
			w.Args = append(w.Args, ArgSpec{Kind: ArgConvFunc, Party: len(w.Parties) - 1})
			callArgs = append(callArgs, len(w.Args)-1)
		case 4: // name-using converter: takes a same-named value of another type
			if p.Name == "" {
				continue
			}
			ot := g.concrete()
			c := Party{InForm: FormStruct, OutForm: FormStruct, In: []Slot{{Label: Label{Name: p.Name, Type: ot}}}, Out: []Slot{{Label: p}}, HasErr: r.Bool()}
			w.Parties = append(w.Parties, c)
			w.Args = append(w.Args, ArgSpec{Kind: ArgConvFunc, Party: len(w.Parties) - 1})
			callArgs = append(callArgs, len(w.Args)-1)
		case 5: // a random converter (sometimes with two inputs)
			nin := 1
			if cfg.MultiIn && r.Bool() {
				nin = 2
			}
			c := g.party(nin, 1, r.Bool())
			if nin == 2 && len(c.Out) == 1 && r.Bool() {
				// ... producing the parameter itself from values in play
				c.Out[0].Label = Label{Type: p.Type}
				if c.OutForm != FormPositional {
					c.Out[0].Label = p
				}
			}
			if len(c.Out) == 0 {
				continue
			}
			w.Parties = append(w.Parties, c)
			a := ArgSpec{Kind: ArgConvFunc, Party: len(w.Parties) - 1}
			if cfg.Gens && r.Bool() {
				a = ArgSpec{Kind: ArgGen, Gen: &Gen{Trigger: p.Type, Party: len(w.Parties) - 1}}
			}
			w.Args = append(w.Args, a)
			callArgs = append(callArgs, len(w.Args)-1)
		case 6: // a 2-cycle through a parameter type
			ot := g.concrete()
			if ot == p.Type {
				continue
			}
			for _, pr := range [][2]int{{p.Type, ot}, {ot, p.Type}} {
				c := Party{InForm: FormPositional, OutForm: FormPositional, In: []Slot{{Label: Label{Type: pr[0]}}}, Out: []Slot{{Label: Label{Type: pr[1]}}}}
				w.Parties = append(w.Parties, c)
				w.Args = append(w.Args, ArgSpec{Kind: ArgConv, Party: len(w.Parties) - 1})
				callArgs = append(callArgs, len(w.Args)-1)
			}
		}
	}
	for i := len(callArgs) - 1; i > 0; i-- {
		j := r.Intn(i + 1)
		callArgs[i], callArgs[j] = callArgs[j], callArgs[i]
	}
	w.Ops = []Op{{Kind: OpCall, Target: 0, Args: callArgs}}
	return w
}
