package world

// ShrinkCandidates proposes strictly simpler worlds. Every candidate is a
// well-formed world; whether it still satisfies a property's preconditions is
// re-checked by that property when it runs the candidate.
func ShrinkCandidates(w World) []World {
	var out []World
	add := func(c World) { out = append(out, c) }
	// tidy-up first: remove unreferenced options and parties
	if c, changed := Compact(w); changed {
		add(c)
	}
	// fewer threads
	if w.Threads > 1 {
		c := w.Clone()
		c.Threads = w.Threads - 1
		for i := range c.Ops {
			if c.Ops[i].Thread >= c.Threads {
				c.Ops[i].Thread = c.Threads - 1
			}
		}
		add(c)
	}
	// drop an operation (keeping redef references consistent)
	if len(w.Ops) > 1 {
		for i := len(w.Ops) - 1; i >= 0; i-- {
			c := w.Clone()
			c.Ops = append(c.Ops[:i], c.Ops[i+1:]...)
			ok := true
			for j := range c.Ops {
				if c.Ops[j].Kind == OpCallRedef {
					switch {
					case c.Ops[j].Redef == i:
						ok = false
					case c.Ops[j].Redef > i:
						c.Ops[j].Redef--
					}
				}
			}
			if ok {
				add(c)
			}
		}
	}
	// drop a fault
	for i := range w.Faults {
		c := w.Clone()
		c.Faults = append(c.Faults[:i], c.Faults[i+1:]...)
		add(c)
	}
	// drop an option from an operation / from defaults
	for oi, o := range w.Ops {
		for ai := range o.Args {
			c := w.Clone()
			c.Ops[oi].Args = append(c.Ops[oi].Args[:ai], c.Ops[oi].Args[ai+1:]...)
			add(c)
		}
	}
	for pi, p := range w.Parties {
		for di := range p.Defaults {
			c := w.Clone()
			c.Parties[pi].Defaults = append(c.Parties[pi].Defaults[:di], c.Parties[pi].Defaults[di+1:]...)
			add(c)
		}
	}
	// drop a slot
	for pi, p := range w.Parties {
		for si := range p.In {
			c := w.Clone()
			c.Parties[pi].In = append(c.Parties[pi].In[:si], c.Parties[pi].In[si+1:]...)
			add(c)
		}
		for si := range p.Out {
			if len(p.Out) == 1 && pi != 0 {
				continue
			}
			c := w.Clone()
			c.Parties[pi].Out = append(c.Parties[pi].Out[:si], c.Parties[pi].Out[si+1:]...)
			add(c)
		}
	}
	// simplify parties
	for pi, p := range w.Parties {
		if p.Once {
			c := w.Clone()
			c.Parties[pi].Once = false
			add(c)
		}
		if p.HasErr && p.InForm != FormBuilt {
			c := w.Clone()
			c.Parties[pi].HasErr = false
			add(c)
		}
		if p.InForm == FormBuilt {
			c := w.Clone()
			c.Parties[pi].InForm, c.Parties[pi].OutForm = FormStruct, FormStruct
			add(c)
		}
		if p.InForm == FormPtrStruct || p.InForm == FormPtrPtrStruct {
			c := w.Clone()
			c.Parties[pi].InForm = FormStruct
			add(c)
		}
		if p.OutForm == FormPtrStruct {
			c := w.Clone()
			c.Parties[pi].OutForm = FormStruct
			add(c)
		}
		plain := func(ss []Slot) bool {
			seen := map[int]bool{}
			for _, s := range ss {
				if s.Name != "" || s.Sub != "" || seen[s.Type] {
					return false
				}
				seen[s.Type] = true
			}
			return true
		}
		if p.InForm == FormStruct && plain(p.In) {
			c := w.Clone()
			c.Parties[pi].InForm = FormPositional
			add(c)
		}
		if p.OutForm == FormStruct && plain(p.Out) {
			c := w.Clone()
			c.Parties[pi].OutForm = FormPositional
			add(c)
		}
		for si, s := range p.In {
			if s.Sub != "" {
				c := w.Clone()
				c.Parties[pi].In[si].Sub = ""
				add(c)
			}
			if s.Name != "" {
				c := w.Clone()
				c.Parties[pi].In[si].Name = ""
				add(c)
			}
			if s.Spell != 0 {
				c := w.Clone()
				c.Parties[pi].In[si].Spell = 0
				add(c)
			}
		}
		for si, s := range p.Out {
			if s.Sub != "" {
				c := w.Clone()
				c.Parties[pi].Out[si].Sub = ""
				add(c)
			}
			if s.Name != "" {
				c := w.Clone()
				c.Parties[pi].Out[si].Name = ""
				add(c)
			}
			if IsIface(s.Type) {
				c := w.Clone()
				c.Parties[pi].Out[si].Type = s.Impl
				add(c)
			}
		}
	}
	// simplify option values
	for ai, a := range w.Args {
		switch a.Kind {
		case ArgNamed:
			if a.Label.Sub != "" {
				c := w.Clone()
				c.Args[ai].Label.Sub = ""
				add(c)
			}
			if a.Spell != a.Label.Name {
				c := w.Clone()
				c.Args[ai].Spell = a.Label.Name
				add(c)
			}
			c := w.Clone()
			c.Args[ai].Kind = ArgTyped
			c.Args[ai].Label.Name = ""
			c.Args[ai].Spell = ""
			add(c)
		case ArgTyped:
			if a.Label.Sub != "" {
				c := w.Clone()
				c.Args[ai].Label.Sub = ""
				add(c)
			}
		case ArgGen:
			c := w.Clone()
			c.Args[ai] = ArgSpec{Kind: ArgConvFunc, Party: a.Gen.Party}
			add(c)
			if a.Gen.InheritSub {
				c := w.Clone()
				c.Args[ai].Gen.InheritSub = false
				add(c)
			}
		case ArgConvFunc:
			if !w.Parties[a.Party].Once && w.Parties[a.Party].InForm != FormBuilt {
				c := w.Clone()
				c.Args[ai].Kind = ArgConv
				add(c)
			}
		case ArgFilterIn, ArgFilterOut:
			if a.FilterStyle != 0 {
				c := w.Clone()
				c.Args[ai].FilterStyle = 0
				add(c)
			}
		}
	}
	return out
}

// WellFormed re-checks the structural rules every generated or shrunk world
// must obey (the well-formedness clause of C06): no repeated name and no
// repeated (type, subtype) key among type-only slots of one list; positional
// lists carry no names or subtypes and (unless allowRepeat) no repeated type;
// converters have at least one output.
func WellFormed(w World, allowRepeatPositional bool) bool {
	okList := func(ss []Slot, form int) bool {
		names := map[string]bool{}
		keys := map[[2]interface{}]bool{}
		for _, s := range ss {
			if s.Type < 0 || s.Type >= NumTypesAll {
				return false
			}
			if form == FormPositional && (s.Name != "" || s.Sub != "") {
				return false
			}
			if s.Name != "" {
				if names[s.Name] {
					return false
				}
				names[s.Name] = true
				continue
			}
			k := [2]interface{}{s.Type, s.Sub}
			if keys[k] && !(form == FormPositional && allowRepeatPositional) {
				return false
			}
			keys[k] = true
		}
		return true
	}
	for _, p := range w.Parties {
		if (p.InForm == FormBuilt) != (p.OutForm == FormBuilt) {
			return false
		}
		if p.OutForm == FormPtrPtrStruct || p.InForm > FormPtrPtrStruct || p.OutForm > FormPtrPtrStruct {
			return false
		}
		if !okList(p.In, p.InForm) || !okList(p.Out, p.OutForm) {
			return false
		}
		if p.InForm == FormBuilt && (!p.HasErr || !BuiltFindable(p.Out)) {
			return false
		}
		if q := p.SharePrefixOf - 1; q >= 0 {
			if q >= len(w.Parties) || len(w.Parties[q].Defaults) < len(p.Defaults) {
				return false
			}
			for i, d := range p.Defaults {
				if w.Parties[q].Defaults[i] != d {
					return false
				}
			}
		}
		for _, d := range p.Defaults {
			if d < 0 || d >= len(w.Args) {
				return false
			}
			switch w.Args[d].Kind {
			case ArgConv, ArgConvFunc, ArgGen:
				return false // defaults are values and filters only (instantiation order)
			}
		}
	}
	for _, a := range w.Args {
		switch a.Kind {
		case ArgConv, ArgConvFunc:
			if a.Party < 0 || a.Party >= len(w.Parties) || len(w.Parties[a.Party].Out) == 0 {
				return false
			}
		case ArgGen:
			if a.Gen == nil || a.Gen.Party < 0 || a.Gen.Party >= len(w.Parties) || len(w.Parties[a.Gen.Party].Out) == 0 {
				return false
			}
		case ArgTypedMulti:
			for _, ci := range a.Multi {
				if ci < 0 || ci >= len(w.Args) || w.Args[ci].Kind != ArgTyped || w.Args[ci].Label.Sub != "" {
					return false
				}
			}
		case ArgNamed, ArgTyped:
			if a.Label.Type < 0 || (a.Label.Type >= IfaceBase && a.Label.Type < TwinBase) || a.Label.Type == ErrIface || a.Label.Type == IfaceWide || a.Label.Type >= NumTypesAll {
				return false
			}
			if (a.Kind == ArgNamed) != (a.Label.Name != "") {
				return false
			}
		}
	}
	for i, o := range w.Ops {
		for _, a := range o.Args {
			if a < 0 || a >= len(w.Args) {
				return false
			}
		}
		if q := o.ShareArgsWith - 1; q >= 0 {
			if q >= i || len(w.Ops[q].Args) > len(o.Args) {
				return false
			}
			for k, a := range w.Ops[q].Args {
				if o.Args[k] != a {
					return false
				}
			}
		}
		switch o.Kind {
		case OpCall, OpRedefine, OpLoadInput:
			if o.Target < 0 || o.Target >= len(w.Parties) {
				return false
			}
		case OpConvert:
			if o.Type == -1 {
				// convert to the marker struct type that declares party Target's parameters
				if o.Target < 0 || o.Target >= len(w.Parties) || len(w.Parties[o.Target].In) == 0 ||
					(w.Parties[o.Target].InForm != FormStruct && w.Parties[o.Target].InForm != FormPtrStruct) {
					return false
				}
			} else if o.Type < 0 || o.Type >= NumTypesAll {
				return false
			}
		case OpCallRedef:
			if o.Redef < 0 || o.Redef >= i || w.Ops[o.Redef].Kind != OpRedefine {
				return false
			}
		default:
			return false
		}
	}
	for _, f := range w.Faults {
		if f.Party < 0 || f.Party >= len(w.Parties) {
			return false
		}
	}
	return len(w.Ops) > 0
}

// Compact removes options no operation or default uses and parties nothing
// refers to, renumbering the rest.
func Compact(w World) (World, bool) {
	for _, p := range w.Parties {
		if p.SharePrefixOf != 0 {
			return w, false
		}
	}
	usedArg := make([]bool, len(w.Args))
	for _, o := range w.Ops {
		for _, a := range o.Args {
			usedArg[a] = true
		}
	}
	for _, p := range w.Parties {
		for _, d := range p.Defaults {
			usedArg[d] = true
		}
	}
	for i, a := range w.Args {
		if usedArg[i] {
			for _, ci := range a.Multi {
				usedArg[ci] = true
			}
		}
	}
	for _, o := range w.Ops {
		if o.ShareArgsWith != 0 {
			return w, false
		}
	}
	usedParty := make([]bool, len(w.Parties))
	for _, o := range w.Ops {
		if o.Kind == OpCall || o.Kind == OpRedefine {
			usedParty[o.Target] = true
		}
	}
	for i, a := range w.Args {
		if !usedArg[i] {
			continue
		}
		switch a.Kind {
		case ArgConv, ArgConvFunc:
			usedParty[a.Party] = true
		case ArgGen:
			usedParty[a.Gen.Party] = true
		}
	}
	changed := false
	argMap := make([]int, len(w.Args))
	partyMap := make([]int, len(w.Parties))
	c := World{Threads: w.Threads, Note: w.Note}
	for i, p := range w.Parties {
		if !usedParty[i] {
			partyMap[i] = -1
			changed = true
			continue
		}
		partyMap[i] = len(c.Parties)
		c.Parties = append(c.Parties, p)
	}
	for i, a := range w.Args {
		if !usedArg[i] {
			argMap[i] = -1
			changed = true
			continue
		}
		argMap[i] = len(c.Args)
		c.Args = append(c.Args, a)
	}
	if !changed {
		return w, false
	}
	c = c.Clone()
	for i := range c.Parties {
		for j, d := range c.Parties[i].Defaults {
			c.Parties[i].Defaults[j] = argMap[d]
		}
	}
	for i := range c.Args {
		for k, ci := range c.Args[i].Multi {
			c.Args[i].Multi[k] = argMap[ci]
		}
		switch c.Args[i].Kind {
		case ArgConv, ArgConvFunc:
			c.Args[i].Party = partyMap[c.Args[i].Party]
		case ArgGen:
			c.Args[i].Gen.Party = partyMap[c.Args[i].Gen.Party]
		}
	}
	for _, o := range w.Ops {
		n := o
		n.Args = nil
		for _, a := range o.Args {
			n.Args = append(n.Args, argMap[a])
		}
		if o.Kind == OpCall || o.Kind == OpRedefine {
			n.Target = partyMap[o.Target]
		}
		c.Ops = append(c.Ops, n)
	}
	for _, f := range w.Faults {
		if partyMap[f.Party] >= 0 {
			f.Party = partyMap[f.Party]
			c.Faults = append(c.Faults, f)
		}
	}
	return c, true
}
