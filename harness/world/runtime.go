package world

import (
	"errors"
	"fmt"
	"github.com/hashicorp/go-multierror"
	"reflect"
	"runtime/debug"
	"strings"

	"github.com/hashicorp/go-argmapper"
	"verif.local/harness/core"
	"verif.local/simrt"
)

// Token kinds.
const (
	TokSupplied = 1 // created by the caller for an option value
	TokProduced = 2 // minted by a party execution
)

// Token is the provenance record behind a value's ID.
type Token struct {
	ID     uint64
	Kind   int
	Label  Label // supplied label, or label of the producing output slot
	Arg    int   // supplied: index into World.Args (-1: fresh input of a redefined call)
	Party  int   // produced: party
	Exec   int   // produced: its n-th execution
	Op     int   // operation during which it was created (-1: world construction)
	Inputs []uint64
}

// SimErr is the unique error value a party returns when the fault plan says so.
type SimErr struct {
	N     int
	Party int
	Exec  int
}

func (e *SimErr) Error() string {
	if e == nil {
		return "simulated failure (typed nil *SimErr)"
	}
	return fmt.Sprintf("simulated failure #%d of party %d exec %d", e.N, e.Party, e.Exec)
}

// ExecRec is one party execution in the log.
type ExecRec struct {
	Seq       int
	Op        int
	Thread    int
	Party     int
	N         int // n-th execution of this party over the world's lifetime
	In        []uint64
	Out       []uint64
	Err       *SimErr
	NilStruct bool
	TypedNil  bool  // returned a typed-nil *SimErr as its error (a non-nil error value)
	ErrAny    error // returned this error value (not a *SimErr), e.g. its own *ErrArgumentUnsatisfied
	Planning  bool  // happened while a Redefine was being computed
}

// Failed reports whether the execution returned a non-nil error value.
func (r *ExecRec) Failed() bool { return r.Err != nil || r.TypedNil || r.ErrAny != nil }

// ErrValue is the error value the execution returned (nil if none).
func (r *ExecRec) ErrValue() error {
	if r.ErrAny != nil {
		return r.ErrAny
	}
	if r.Err != nil || r.TypedNil {
		return r.Err
	}
	return nil
}

// Online is a firing of the online (in-party) invariant.
type Online struct {
	Class  string
	Op     int
	Party  int
	Slot   int
	Detail string
}

// OpResult is what an operation returned, decoded.
type OpResult struct {
	Op                                 int
	Kind                               string
	Returned                           bool // false: panicked / diverged
	PanicClass, PanicSite, PanicDetail string
	Err                                error
	ErrKind                            string // "" | unsatisfied | injected | bug | nilarg | other
	Unsat                              *argmapper.ErrArgumentUnsatisfied
	Outs                               []uint64 // tokens of the outputs (call / callredef / convert)
	OutDyn                             []int
	OutLen                             int
	ErrText                            string // Err.Error(), rendered within the operation
	Loaded                             int    // loadinput: values written into the Func's own input set
	Redef                              *argmapper.Func
	RedefIn                            []Label // declared inputs of the redefined function
	LogFrom                            int
	LogTo                              int
	Fresh                              []uint64 // callredef: fresh tokens supplied for the declared inputs
	ConvNil                            bool     // convert: returned value was nil
	Raw                                *argmapper.Result
}

// Runtime is an instantiated world.
type Runtime struct {
	W              *World
	Sim            *simrt.Sim
	St             *core.Stats
	Parties        []Party // world parties + parties derived by generators
	Tokens         []Token
	Log            []ExecRec
	Online         []Online
	Results        []*OpResult
	execs          []int
	nerr           int
	funcs          []*argmapper.Func
	raw            []interface{}
	args           []argmapper.Arg
	ArgTok         []uint64 // token minted for each named/typed ArgSpec (0 otherwise)
	curOp          [8]int   // per thread: operation being executed (-1 none)
	FaultsFired    map[string]int
	GenCalls       int
	derived        map[string]int
	derivedOf      []int
	defaultSlices  [][]argmapper.Arg
	opSlices       [][]argmapper.Arg
	echo           reflect.Value
	typedNil       bool
	anyErr         error
	InstPanic      string // a constructor panicked during instantiation
	InstPanicStack string
	FilterCalls    int
	NilStructOps   map[int][]int // op -> parties that returned a nil struct during it
	InstErr        error
}

var errType = reflect.TypeOf((*error)(nil)).Elem()
var markerType = reflect.TypeOf(argmapper.Struct{})

func (rt *Runtime) thread() int {
	return rt.Sim.CurThreadID()
}

func (rt *Runtime) newToken(t Token) uint64 {
	t.ID = uint64(len(rt.Tokens))
	rt.Tokens = append(rt.Tokens, t)
	return t.ID
}

// structTypeOf builds the marker struct type for a slot list. Field i+1 holds slot i.
func structTypeOf(slots []Slot) reflect.Type { return structTypeOfM(slots, false) }

// structTypeOfM: markerLast puts the embedded marker behind the fields (the marker may
// be embedded anywhere in the struct); field i holds slot i then.
func structTypeOfM(slots []Slot, markerLast bool) reflect.Type {
	var sf []reflect.StructField
	if !markerLast {
		sf = append(sf, reflect.StructField{Name: "Struct", Type: markerType, Anonymous: true})
	}
	for i, s := range slots {
		var f reflect.StructField
		f.Type = Types[s.Type]
		var tagName string
		var opts []string
		if s.Name == "" {
			f.Name = fmt.Sprintf("Zv%d", i)
			opts = append(opts, "typeOnly")
			if s.Spell%3 == 1 {
				// a name part in front of typeOnly is legal and must be ignored
				tagName = Names[(s.Spell/3)%4]
			}
		} else if s.Type >= 6 && s.Type < NumStruct && s.Name == strings.ToLower(Types[s.Type].Name()) {
			// a value named after its (method-less) type is declared by embedding the type
			f.Name = Types[s.Type].Name()
			f.Anonymous = true
		} else {
			field, tn := spellName(s.Name, s.Spell)
			if field == "" {
				field = fmt.Sprintf("Zf%d", i)
			}
			f.Name = field
			tagName = tn
		}
		if s.Sub != "" {
			opts = append(opts, "subtype="+s.Sub)
		}
		// tag oddities the parser documents nothing about and has always ignored: an
		// unknown option without a value, a trailing comma
		switch {
		case s.Spell%7 == 5:
			opts = append(opts, "omitempty")
		case s.Spell%7 == 6 && (tagName != "" || len(opts) > 0):
			opts = append(opts, "")
		}
		if tagName != "" || len(opts) > 0 {
			f.Tag = reflect.StructTag(fmt.Sprintf(`argmapper:"%s"`, strings.Join(append([]string{tagName}, opts...), ",")))
		}
		sf = append(sf, f)
	}
	if markerLast {
		sf = append(sf, reflect.StructField{Name: "Struct", Type: markerType, Anonymous: true})
	}
	return reflect.StructOf(sf)
}

func valuesOf(slots []Slot) []argmapper.Value {
	var vs []argmapper.Value
	for _, s := range slots {
		n := s.Name
		switch {
		case n == "":
		case s.Spell%3 == 1:
			n = strings.ToUpper(n)
		case s.Spell%3 == 2:
			rs := []rune(n)
			n = strings.ToUpper(string(rs[:1])) + string(rs[1:])
		}
		vs = append(vs, argmapper.Value{Name: n, Type: Types[s.Type], Subtype: s.Sub})
	}
	return vs
}

// CheckValueSet asserts the value-set accessor clauses of C15 on a list of
// distinct values: Values() reports them back in order (names lower-cased),
// Named finds each named value, Typed each type-only value that is the only
// type-only one of its type, TypedSubtype each value no other value shares
// type and subtype with, and SignatureValues -> FromSignature restores every
// value. It returns human-readable discrepancies.
func CheckValueSet(slots []Slot, mint func() uint64) []string {
	var bad []string
	vs, err := argmapper.NewValueSet(valuesOf(slots))
	if err != nil {
		return []string{"NewValueSet: " + err.Error()}
	}
	got := vs.Values()
	if len(got) != len(slots) {
		return []string{fmt.Sprintf("Values() has %d entries for %d values", len(got), len(slots))}
	}
	ptrs := make([]*argmapper.Value, len(slots))
	for i, s := range slots {
		if got[i].Name != s.Name || got[i].Type != Types[s.Type] || got[i].Subtype != s.Sub {
			bad = append(bad, fmt.Sprintf("Values()[%d] is %s, declared %s", i, got[i].String(), s.Label))
		}
		switch {
		case s.Name != "":
			ptrs[i] = vs.Named(s.Name)
			if ptrs[i] == nil || ptrs[i].Name != s.Name || ptrs[i].Type != Types[s.Type] {
				bad = append(bad, fmt.Sprintf("Named(%q) does not find value %d", s.Name, i))
				ptrs[i] = nil
			}
		case builtLookupByType(slots, i):
			ptrs[i] = vs.Typed(Types[s.Type])
			if ptrs[i] == nil || ptrs[i].Name != "" || ptrs[i].Type != Types[s.Type] || ptrs[i].Subtype != s.Sub {
				bad = append(bad, fmt.Sprintf("Typed(%s) does not find type-only value %d", TypeName(s.Type), i))
				ptrs[i] = nil
			}
		}
		unique := true
		for j, o := range slots {
			if j != i && o.Type == s.Type && o.Sub == s.Sub {
				unique = false
			}
		}
		if unique {
			p := vs.TypedSubtype(Types[s.Type], s.Sub)
			if p == nil || p.Name != s.Name || p.Type != Types[s.Type] || p.Subtype != s.Sub {
				bad = append(bad, fmt.Sprintf("TypedSubtype(%s,%q) does not find value %d", TypeName(s.Type), s.Sub, i))
			} else if ptrs[i] == nil {
				ptrs[i] = p
			} else if ptrs[i] != p {
				bad = append(bad, fmt.Sprintf("TypedSubtype(%s,%q) and the name/type lookup disagree on value %d", TypeName(s.Type), s.Sub, i))
			}
		}
	}
	// signature round trip
	ids := make([]uint64, len(slots))
	for i, s := range slots {
		if ptrs[i] == nil {
			continue
		}
		ids[i] = mint()
		t := s.Type
		if IsIface(t) {
			t = Implementors(t)[0]
		}
		v := reflect.ValueOf(MakeValue(t, ids[i]))
		if IsIface(s.Type) {
			iv := reflect.New(Types[s.Type]).Elem()
			iv.Set(v)
			v = iv
		}
		ptrs[i].Value = v
	}
	sig := vs.Signature()
	sv := vs.SignatureValues()
	if len(sig) != len(sv) {
		bad = append(bad, fmt.Sprintf("Signature has %d types, SignatureValues %d values", len(sig), len(sv)))
		return bad
	}
	for i := range sv {
		if sv[i].Type() != sig[i] {
			bad = append(bad, fmt.Sprintf("SignatureValues()[%d] has type %s, Signature says %s", i, sv[i].Type(), sig[i]))
		}
	}
	vs2, _ := argmapper.NewValueSet(valuesOf(slots))
	if err := vs2.FromSignature(sv); err != nil {
		bad = append(bad, "FromSignature: "+err.Error())
		return bad
	}
	back := vs2.Values()
	for i := range slots {
		if ptrs[i] == nil || i >= len(back) {
			continue
		}
		id, _, _ := Decode(back[i].Value)
		if id != ids[i] {
			bad = append(bad, fmt.Sprintf("value %d (%s) carries token %d after SignatureValues/FromSignature, was %d", i, slots[i].Label, id, ids[i]))
		}
	}
	return bad
}

// MintScratch allocates a token id that belongs to no operation (used by
// CheckValueSet).
func (rt *Runtime) MintScratch() uint64 {
	return rt.newToken(Token{Kind: TokSupplied, Arg: -2, Op: -1})
}

// Instantiate builds every party and option value of w against the library.
func Instantiate(w *World, sim *simrt.Sim, st *core.Stats) *Runtime {
	rt := &Runtime{W: w, Sim: sim, St: st, Parties: append([]Party(nil), w.Parties...), FaultsFired: map[string]int{},
		derived: map[string]int{}, NilStructOps: map[int][]int{}}
	rt.Tokens = append(rt.Tokens, Token{}) // id 0 = the zero value, never minted
	for i := range rt.curOp {
		rt.curOp[i] = -1
	}
	n := len(rt.Parties)
	rt.execs = make([]int, n)
	rt.funcs = make([]*argmapper.Func, n)
	rt.raw = make([]interface{}, n)
	rt.args = make([]argmapper.Arg, len(w.Args))
	rt.ArgTok = make([]uint64, len(w.Args))
	// option values that do not depend on parties first (defaults may use them)
	for i, a := range w.Args {
		switch a.Kind {
		case ArgNamed, ArgTyped:
			id := rt.newToken(Token{Kind: TokSupplied, Label: a.Label, Arg: i, Op: -1})
			rt.ArgTok[i] = id
			v := MakeValue(a.Label.Type, id)
			if a.NilPtr && Types[a.Label.Type].Kind() == reflect.Ptr {
				// a typed nil pointer is a value like any other to the library; its String
				// method (see pool.go) does not survive being called on it
				v = reflect.Zero(Types[a.Label.Type]).Interface()
			}
			if a.Kind == ArgNamed {
				sp := a.Spell
				if sp == "" {
					sp = a.Label.Name
				}
				rt.args[i] = argmapper.NamedSubtype(sp, v, a.Label.Sub)
			} else if a.Label.Sub != "" && i%2 == 1 {
				// "If the name is an empty string, this is the equivalent to calling TypedSubtype"
				rt.args[i] = argmapper.NamedSubtype("", v, a.Label.Sub)
			} else {
				rt.args[i] = argmapper.TypedSubtype(v, a.Label.Sub)
			}
		case ArgNilValue:
			if a.Label.Name != "" {
				rt.args[i] = argmapper.Named(a.Label.Name, nil)
			} else {
				rt.args[i] = argmapper.Typed(nil)
			}
		case ArgNilOpt:
			rt.args[i] = nil
		case ArgNonFunc:
			rt.args[i] = argmapper.Converter(42)
		case ArgNilFunc:
			rt.args[i] = argmapper.ConverterFunc(nil)
		case ArgNilConv:
			rt.args[i] = argmapper.Converter(nil)
		case ArgFilterIn:
			rt.args[i] = argmapper.FilterInput(rt.makeFilter(a))
		case ArgFilterOut:
			rt.args[i] = argmapper.FilterOutput(rt.makeFilter(a))
		}
	}
	for i, a := range w.Args {
		if a.Kind != ArgTypedMulti {
			continue
		}
		var vs []interface{}
		for k, ci := range a.Multi {
			if k < len(a.NilBefore) && a.NilBefore[k] {
				vs = append(vs, nil)
			}
			vs = append(vs, MakeValue(w.Args[ci].Label.Type, rt.ArgTok[ci]))
		}
		if a.NilLast {
			vs = append(vs, nil)
		}
		rt.args[i] = argmapper.Typed(vs...)
	}
	// parties (those referenced as defaults of others cannot be cyclic: defaults are values only)
	for pi := range rt.Parties {
		if err := rt.buildParty(pi); err != nil {
			rt.InstErr = fmt.Errorf("party %d (%s): %v", pi, rt.Parties[pi], err)
			return rt
		}
	}
	for i, a := range w.Args {
		switch a.Kind {
		case ArgConv:
			rt.args[i] = argmapper.Converter(rt.raw[a.Party])
		case ArgConvFunc:
			if a.NilPad {
				rt.args[i] = argmapper.ConverterFunc(nil, rt.funcs[a.Party], nil)
			} else {
				rt.args[i] = argmapper.ConverterFunc(rt.funcs[a.Party])
			}
		case ArgGen:
			rt.args[i] = argmapper.ConverterGen(rt.makeGen(i, a.Gen))
		}
	}
	return rt
}

func (rt *Runtime) makeFilter(a ArgSpec) argmapper.FilterFunc {
	acc := map[reflect.Type]bool{}
	var fts []argmapper.FilterFunc
	for _, t := range a.Filter {
		acc[Types[t]] = true
		fts = append(fts, argmapper.FilterType(Types[t]))
	}
	count := func(f argmapper.FilterFunc) argmapper.FilterFunc {
		return func(v argmapper.Value) bool { rt.FilterCalls++; return f(v) }
	}
	switch a.FilterStyle {
	case 1:
		return count(argmapper.FilterOr(fts...))
	case 2:
		return count(argmapper.FilterAnd(argmapper.FilterOr(fts...), func(argmapper.Value) bool { return true }))
	}
	return count(func(v argmapper.Value) bool { return acc[v.Type] })
}

// FilterAccepts is the model of a filter option (exact type membership; an
// interface type in the list also admits its implementors for styles 1 and 2,
// mirroring the documented FilterType).
func FilterAccepts(a ArgSpec, t int) bool {
	for _, x := range a.Filter {
		if x == t {
			return true
		}
		if a.FilterStyle != 0 && IsIface(x) && Implements(t, x) {
			return true
		}
	}
	return false
}

func (rt *Runtime) makeGen(ai int, g *Gen) argmapper.ConverterGenFunc {
	return func(v argmapper.Value) (*argmapper.Func, error) {
		rt.GenCalls++
		if g.Fault == 3 {
			// a "wrap" generator: for every value it is offered, of whatever type X, it
			// offers a converter X -> [1]X. Legal, and harmless as long as generators are
			// offered each value once; nothing in a world ever asks for [1]X.
			rt.FaultsFired["gen_wrap"]++
			ft := reflect.FuncOf([]reflect.Type{v.Type}, []reflect.Type{reflect.ArrayOf(1, v.Type)}, false)
			fn := reflect.MakeFunc(ft, func(args []reflect.Value) []reflect.Value {
				out := reflect.New(ft.Out(0)).Elem()
				out.Index(0).Set(args[0])
				return []reflect.Value{out}
			})
			return argmapper.NewFunc(fn.Interface())
		}
		if v.Type != Types[g.Trigger] {
			return nil, nil
		}
		switch g.Fault {
		case 1:
			rt.FaultsFired["gen_decline"]++
			return nil, nil
		case 2:
			rt.FaultsFired["gen_error"]++
			rt.nerr++
			return nil, &SimErr{N: rt.nerr, Party: -1 - ai}
		}
		if !g.InheritSub || v.Subtype == "" {
			return rt.funcs[g.Party], nil
		}
		// like a real generator, build a fresh converter for every operation
		// (a Func cached across caller threads would need the user's own locking)
		key := fmt.Sprintf("%d/%s/op%d", ai, v.Subtype, rt.curOp[rt.thread()])
		pi, ok := rt.derived[key]
		if !ok {
			p := rt.Parties[g.Party]
			p.Out = append([]Slot(nil), p.Out...)
			if len(p.Out) > 0 && p.Out[0].Name == "" && p.OutForm != FormPositional {
				p.Out[0].Sub = v.Subtype
			}
			rt.Parties = append(rt.Parties, p)
			rt.derivedOf = append(rt.derivedOf, g.Party)
			rt.execs = append(rt.execs, 0)
			rt.funcs = append(rt.funcs, nil)
			rt.raw = append(rt.raw, nil)
			pi = len(rt.Parties) - 1
			rt.derived[key] = pi
			if err := rt.buildParty(pi); err != nil {
				panic(&simrt.Infra{Msg: "derived party: " + err.Error()})
			}
		}
		return rt.funcs[pi], nil
	}
}

// buildParty creates the Go function and the *argmapper.Func of party pi.
// buildParty constructs party pi. A constructor that panics is reported as
// InstPanic (with the stack of the panic), never as an error.
func (rt *Runtime) buildParty(pi int) (err error) {
	defer func() {
		if r := recover(); r != nil {
			if d, ok := r.(*simrt.Diverged); ok {
				panic(d)
			}
			rt.InstPanic = fmt.Sprint(r)
			rt.InstPanicStack = string(debug.Stack())
			err = fmt.Errorf("party %d (%s): constructor panicked: %v", pi, rt.Parties[pi], r)
		}
	}()
	return rt.buildParty1(pi)
}

func (rt *Runtime) buildParty1(pi int) error {
	p := rt.Parties[pi]
	opts := make([]argmapper.Arg, 0, len(p.Defaults)+5) // spare capacity, as append leaves it
	for _, d := range p.Defaults {
		opts = append(opts, rt.args[d])
	}
	if q := p.SharePrefixOf - 1; q >= 0 && q < pi && q < len(rt.defaultSlices) && len(rt.defaultSlices[q]) >= len(p.Defaults) && !p.Once {
		opts = rt.defaultSlices[q][:len(p.Defaults)]
	}
	for len(rt.defaultSlices) <= pi {
		rt.defaultSlices = append(rt.defaultSlices, nil)
	}
	rt.defaultSlices[pi] = opts
	if p.Once {
		opts = append(opts, argmapper.FuncOnce())
		if pi%2 == 1 {
			opts = append(opts, argmapper.FuncName(fmt.Sprintf("party%d", pi))) // naming a function must not change it
		}
	}
	if p.InForm == FormBuilt || p.OutForm == FormBuilt {
		var inSet, outSet *argmapper.ValueSet
		var err error
		if len(p.In) > 0 {
			if inSet, err = argmapper.NewValueSet(valuesOf(p.In)); err != nil {
				return err
			}
		}
		if len(p.Out) > 0 {
			if outSet, err = argmapper.NewValueSet(valuesOf(p.Out)); err != nil {
				return err
			}
		}
		// an empty side is a nil set or, for every other party, a set made from an empty list
		if len(p.In) == 0 && pi%2 == 0 {
			if inSet, err = argmapper.NewValueSet([]argmapper.Value{}); err != nil {
				return err
			}
		}
		if len(p.Out) == 0 && pi%2 == 0 {
			if outSet, err = argmapper.NewValueSet(nil); err != nil {
				return err
			}
		}
		f, err := argmapper.BuildFunc(inSet, outSet, func(in, out *argmapper.ValueSet) error {
			vals := make([]reflect.Value, len(p.In))
			if len(p.In) > 0 {
				got := in.Values()
				if len(got) != len(p.In) {
					rt.Online = append(rt.Online, Online{Class: "built-input-shape", Op: rt.curOp[rt.thread()], Party: pi, Detail: fmt.Sprintf("callback sees %d values, declared %d", len(got), len(p.In))})
				}
				for i := range p.In {
					if i < len(got) {
						vals[i] = got[i].Value
					}
				}
				// the documented lookups must show the callback the same values
				for i, s := range p.In {
					if i >= len(got) {
						break
					}
					var via *argmapper.Value
					how := ""
					switch {
					case s.Name != "":
						via, how = in.Named(s.Name), "Named"
					case builtLookupByType(p.In, i):
						via, how = in.Typed(Types[s.Type]), "Typed"
					default:
						continue
					}
					want, _, _ := Decode(got[i].Value)
					if via == nil {
						rt.Online = append(rt.Online, Online{Class: "built-lookup-mismatch", Op: rt.curOp[rt.thread()], Party: pi, Slot: i, Detail: fmt.Sprintf("built party %d: %s lookup of input %s finds nothing", pi, how, s.Label)})
					} else if have, _, _ := Decode(via.Value); have != want {
						rt.Online = append(rt.Online, Online{Class: "built-lookup-mismatch", Op: rt.curOp[rt.thread()], Party: pi, Slot: i, Detail: fmt.Sprintf("built party %d: %s lookup of input %s shows token %d, Values() shows %d", pi, how, s.Label, have, want)})
					}
				}
			}
			outs, serr, _ := rt.exec(pi, vals)
			if ae := rt.anyErr; ae != nil {
				rt.anyErr = nil
				return ae
			}
			if serr != nil || rt.typedNil {
				rt.typedNil = false
				return serr
			}
			for i, s := range p.Out {
				var dst *argmapper.Value
				switch {
				case s.Name != "":
					dst = out.Named(s.Name)
				case builtLookupByType(p.Out, i):
					dst = out.Typed(Types[s.Type])
				default:
					dst = out.TypedSubtype(Types[s.Type], s.Sub)
				}
				if dst == nil {
					rt.Online = append(rt.Online, Online{Class: "built-output-lookup-failed", Op: rt.curOp[rt.thread()], Party: pi, Slot: i, Detail: fmt.Sprintf("built party %d: the documented lookup of output value %s finds nothing in its own value set", pi, s.Label)})
					continue
				}
				dst.Value = outs[i]
			}
			return nil
		}, opts...)
		if err != nil {
			return err
		}
		rt.funcs[pi] = f
		rt.raw[pi] = f.Func()
		return nil
	}
	var inT, outT []reflect.Type
	var inStruct, outStruct reflect.Type
	// (the marker may be embedded anywhere in a struct, but reflect.StructOf can embed a
	// type with methods only as first field: marker-last forms cannot be made here)
	markerLast := false
	off := 1
	if markerLast {
		off = 0
	}
	switch p.InForm {
	case FormPositional:
		for _, s := range p.In {
			inT = append(inT, Types[s.Type])
		}
	case FormStruct, FormPtrStruct, FormPtrPtrStruct:
		inStruct = structTypeOfM(p.In, markerLast)
		switch p.InForm {
		case FormPtrStruct:
			inT = []reflect.Type{reflect.PtrTo(inStruct)}
		case FormPtrPtrStruct:
			inT = []reflect.Type{reflect.PtrTo(reflect.PtrTo(inStruct))}
		default:
			inT = []reflect.Type{inStruct}
		}
	}
	switch p.OutForm {
	case FormPositional:
		for _, s := range p.Out {
			outT = append(outT, Types[s.Type])
		}
	case FormStruct, FormPtrStruct:
		outStruct = structTypeOf(p.Out)
		if p.OutForm == FormPtrStruct {
			outT = []reflect.Type{reflect.PtrTo(outStruct)}
		} else {
			outT = []reflect.Type{outStruct}
		}
	}
	if p.HasErr {
		outT = append(outT, errType)
	}
	ft := reflect.FuncOf(inT, outT, false)
	fn := reflect.MakeFunc(ft, func(args []reflect.Value) []reflect.Value {
		vals := make([]reflect.Value, len(p.In))
		switch p.InForm {
		case FormPositional:
			copy(vals, args)
		case FormStruct:
			for i := range p.In {
				vals[i] = args[0].Field(i + off)
			}
		case FormPtrPtrStruct:
			if !args[0].IsNil() && !args[0].Elem().IsNil() {
				for i := range p.In {
					vals[i] = args[0].Elem().Elem().Field(i + off)
				}
			}
		case FormPtrStruct:
			if args[0].IsNil() {
				rt.Online = append(rt.Online, Online{Class: "nil-struct-argument", Op: rt.curOp[rt.thread()], Party: pi, Detail: "pointer-struct parameter is nil"})
			} else {
				for i := range p.In {
					vals[i] = args[0].Elem().Field(i + off)
				}
			}
		}
		outs, serr, nilStruct := rt.exec(pi, vals)
		var res []reflect.Value
		switch p.OutForm {
		case FormPositional:
			for i, s := range p.Out {
				if outs == nil {
					res = append(res, reflect.Zero(Types[s.Type]))
				} else {
					res = append(res, outs[i])
				}
			}
		case FormStruct, FormPtrStruct:
			sv := reflect.New(outStruct)
			if outs != nil {
				for i := range p.Out {
					sv.Elem().Field(i + 1).Set(outs[i])
				}
			}
			switch {
			case p.OutForm == FormStruct:
				res = append(res, sv.Elem())
			case nilStruct || outs == nil:
				res = append(res, reflect.Zero(reflect.PtrTo(outStruct)))
			default:
				res = append(res, sv)
			}
		}
		if p.HasErr {
			if echo := rt.echo; echo.IsValid() {
				rt.echo = reflect.Value{}
				res = res[:0]
				for _, t := range outT[:len(outT)-1] {
					res = append(res, reflect.Zero(t))
				}
				res = append(res, echo.Convert(errType))
			} else if ae := rt.anyErr; ae != nil {
				rt.anyErr = nil
				res = append(res, reflect.ValueOf(ae).Convert(errType))
			} else if serr != nil || rt.typedNil {
				rt.typedNil = false
				res = append(res, reflect.ValueOf(serr).Convert(errType))
			} else {
				res = append(res, reflect.Zero(errType))
			}
		}
		return res
	})
	rt.raw[pi] = fn.Interface()
	var f *argmapper.Func
	var err error
	if (pi+len(rt.W.Parties))%3 == 2 {
		// "the same as calling NewFunc repeatedly": every third party is made through the list constructor
		var fl []*argmapper.Func
		if fl, err = argmapper.NewFuncList([]interface{}{rt.raw[pi]}, opts...); err == nil {
			f = fl[0]
		}
	} else {
		f, err = argmapper.NewFunc(rt.raw[pi], opts...)
	}
	if err != nil {
		return err
	}
	rt.funcs[pi] = f
	return nil
}

func (rt *Runtime) fault(kind string, pi, n int) bool {
	for _, f := range rt.W.Faults {
		if f.Kind == kind && f.Party == pi && (f.Nth == 0 || f.Nth == n) {
			return true
		}
	}
	return false
}

// exec is the body shared by every party: log, online invariant, faults, mint.
func (rt *Runtime) exec(pi int, in []reflect.Value) (outs []reflect.Value, serr *SimErr, nilStruct bool) {
	rt.echo = reflect.Value{}
	simrt.Yield(-1)
	p := rt.Parties[pi]
	th := rt.thread()
	op := rt.curOp[th]
	if pi >= len(rt.execs) {
		panic(&simrt.Infra{Msg: "exec of unknown party"})
	}
	rt.execs[pi]++
	n := rt.execs[pi]
	rec := ExecRec{Seq: len(rt.Log), Op: op, Thread: th, Party: pi, N: n}
	if op >= 0 && op < len(rt.W.Ops) && rt.W.Ops[op].Kind == OpRedefine {
		rec.Planning = true
	}
	for i, v := range in {
		id, dyn, ok := Decode(v)
		if !ok {
			rt.Online = append(rt.Online, Online{Class: "foreign-value", Op: op, Party: pi, Slot: i, Detail: fmt.Sprintf("parameter %s holds a value that is not a pool value", p.In[i].Label)})
		}
		_ = dyn
		rec.In = append(rec.In, id)
	}
	rt.Sim.Event("exec", uint64(pi), uint64(n), uint64(op))
	for _, id := range rec.In {
		rt.Sim.Event("in", id)
	}
	if !rec.Planning {
		rt.checkOnline(&rec, p)
	}
	if p.HasErr && len(in) > 0 && rt.fault("echo_error", pi, n) && in[0].IsValid() && in[0].Type().Implements(errType) {
		// the party returns the value it received as its error result (func(error) error)
		rt.FaultsFired["echo_error"]++
		rt.echo = in[0]
		rt.Log = append(rt.Log, rec)
		simrt.Yield(-2)
		return nil, nil, false
	}
	if p.HasErr && rt.fault("multierror_single", pi, n) {
		// the party's own error is a list of errors with one entry: still the party's
		// error value, to be handed back as it is
		rt.nerr++
		rec.ErrAny = &multierror.Error{Errors: []error{&SimErr{N: rt.nerr, Party: pi, Exec: n}}}
		rt.FaultsFired["multierror_single"]++
		rt.anyErr = rec.ErrAny
		rt.Sim.Event("fault-multierror", uint64(pi), uint64(n))
		rt.Log = append(rt.Log, rec)
		simrt.Yield(-2)
		return nil, nil, false
	}
	if p.HasErr && rt.fault("unsat_error", pi, n) {
		// the party reports an unsatisfied-argument error of its own making (what a
		// converter gets when it calls another argmapper Func internally)
		rec.ErrAny = &argmapper.ErrArgumentUnsatisfied{Func: rt.funcs[pi]}
		rt.FaultsFired["unsat_error"]++
		rt.anyErr = rec.ErrAny
		rt.Sim.Event("fault-unsat", uint64(pi), uint64(n))
		rt.Log = append(rt.Log, rec)
		simrt.Yield(-2)
		return nil, nil, false
	}
	if p.HasErr && rt.fault("typed_nil_error", pi, n) {
		// a nil pointer of an error type is a non-nil error value
		rec.TypedNil = true
		rt.FaultsFired["typed_nil_error"]++
		rt.typedNil = true
		rt.Sim.Event("fault-typednil", uint64(pi), uint64(n))
		rt.Log = append(rt.Log, rec)
		simrt.Yield(-2)
		return nil, nil, false
	}
	if p.HasErr && rt.fault("conv_error", pi, n) {
		rt.nerr++
		rec.Err = &SimErr{N: rt.nerr, Party: pi, Exec: n}
		rt.FaultsFired["conv_error"]++
		rt.Sim.Event("fault-error", uint64(pi), uint64(n))
		rt.Log = append(rt.Log, rec)
		simrt.Yield(-2)
		return nil, rec.Err, false
	}
	if p.OutForm == FormPtrStruct && rt.fault("nil_struct", pi, n) {
		rec.NilStruct = true
		rt.FaultsFired["nil_struct"]++
		rt.NilStructOps[op] = append(rt.NilStructOps[op], pi)
		rt.Sim.Event("fault-nilstruct", uint64(pi), uint64(n))
		rt.Log = append(rt.Log, rec)
		simrt.Yield(-2)
		return nil, nil, true
	}
	nilIface := p.OutForm != FormBuilt && rt.fault("nil_iface", pi, n)
	for _, s := range p.Out {
		if nilIface && IsIface(s.Type) {
			// a nil interface is a legal result value: what is behind it is the zero value
			rec.Out = append(rec.Out, 0)
			outs = append(outs, reflect.Zero(Types[s.Type]))
			if !rec.NilStruct {
				rec.NilStruct = true
				rt.FaultsFired["nil_iface"]++
				rt.NilStructOps[op] = append(rt.NilStructOps[op], pi)
				rt.Sim.Event("fault-niliface", uint64(pi), uint64(n))
			}
			continue
		}
		id := rt.newToken(Token{Kind: TokProduced, Label: s.Label, Party: pi, Exec: n, Op: op, Inputs: rec.In})
		rec.Out = append(rec.Out, id)
		t := s.Type
		if IsIface(t) {
			t = s.Impl
			if !Implements(t, s.Type) || IsIface(t) {
				t = Implementors(s.Type)[0]
			}
		}
		v := reflect.ValueOf(MakeValue(t, id))
		if IsIface(s.Type) && p.OutForm != FormBuilt {
			// (a build callback stores the concrete value, as user code would)
			iv := reflect.New(Types[s.Type]).Elem()
			iv.Set(v)
			v = iv
		}
		outs = append(outs, v)
	}
	rt.Log = append(rt.Log, rec)
	simrt.Yield(-2)
	return outs, nil, false
}

// Permit is the matching table of the property C01, transcribed from its
// statement: equal names when both sides are named; identical type or an
// implementation of the parameter's interface type; for identical types a
// subtype that is equal or absent on one side.
func Permit(s, p Label) bool {
	if s.Name != "" && p.Name != "" && s.Name != p.Name {
		return false
	}
	if s.Type != p.Type {
		return IsIface(p.Type) && Implements(s.Type, p.Type)
	}
	return s.Sub == p.Sub || s.Sub == "" || p.Sub == ""
}

// SuppliedTokens returns the tokens the caller supplied for operation op
// (its option list, the defaults of its target, and for a call of a redefined
// function the options of the Redefine plus the fresh inputs).
func (rt *Runtime) SuppliedTokens(op int) map[uint64]bool {
	out := map[uint64]bool{}
	if op < 0 || op >= len(rt.W.Ops) {
		return out
	}
	o := rt.W.Ops[op]
	addArgs := func(as []int) {
		for _, a := range as {
			if a >= 0 && a < len(rt.ArgTok) && rt.ArgTok[a] != 0 {
				out[rt.ArgTok[a]] = true
			}
			if a >= 0 && a < len(rt.W.Args) {
				for _, ci := range rt.W.Args[a].Multi {
					out[rt.ArgTok[ci]] = true
				}
			}
		}
	}
	addArgs(o.Args)
	switch o.Kind {
	case OpCall, OpRedefine:
		if o.Target >= 0 && o.Target < len(rt.W.Parties) {
			addArgs(rt.W.Parties[o.Target].Defaults)
		}
	case OpCallRedef:
		if o.Redef >= 0 && o.Redef < len(rt.W.Ops) {
			ro := rt.W.Ops[o.Redef]
			addArgs(ro.Args)
			if ro.Target >= 0 && ro.Target < len(rt.W.Parties) {
				addArgs(rt.W.Parties[ro.Target].Defaults)
			}
		}
		if op < len(rt.Results) && rt.Results[op] != nil {
			for _, id := range rt.Results[op].Fresh {
				out[id] = true
			}
		}
	}
	// defaults of converters given as *Func are options of nested resolution only when
	// that Func is itself called; the library does not apply them to the outer call.
	return out
}

func (rt *Runtime) checkOnline(rec *ExecRec, p Party) {
	op := rec.Op
	var supplied map[uint64]bool
	for i, id := range rec.In {
		slot := p.In[i].Label
		fire := func(class, detail string) {
			rt.Online = append(rt.Online, Online{Class: class, Op: op, Party: rec.Party, Slot: i, Detail: detail})
		}
		if id == 0 {
			// the zero value: legitimate only as the stand-in for the outputs of a
			// party that returned a nil struct during this operation
			ok := false
			for nop, nps := range rt.NilStructOps { // order-insensitive: any match suffices
				for _, np := range nps {
					// this operation's nil results, or the memoised nil result of a run-once party
					if nop != op && !rt.Parties[np].Once {
						continue
					}
					for _, s := range rt.Parties[np].Out {
						if Permit(s.Label, slot) {
							ok = true
						}
					}
				}
			}
			if op >= 0 && op < len(rt.W.Ops) && rt.W.Ops[op].Kind == OpCallRedef && rt.W.Ops[op].ZeroInputs {
				ok = true // the caller handed zero values to the redefined function
			}
			if !ok {
				fire("invented-value", fmt.Sprintf("party %d (%s) exec %d: parameter %s received the zero value (no supplied or produced value)", rec.Party, p, rec.N, slot))
			}
			continue
		}
		if id >= uint64(len(rt.Tokens)) {
			fire("unknown-token", fmt.Sprintf("party %d: parameter %s received unknown token %d", rec.Party, slot, id))
			continue
		}
		tk := rt.Tokens[id]
		if tk.Kind == TokSupplied && tk.Arg == -1 && op >= 0 && op < len(rt.W.Ops) && rt.W.Ops[op].Kind == OpCallRedef {
			// A value handed to a redefined function reaches the original target in
			// two hops: the outer call binds it to a declared input of the redefined
			// function, whose body supplies it again under that input's label.
			ok := false
			if ro := rt.W.Ops[op].Redef; ro >= 0 && ro < len(rt.Results) && rt.Results[ro] != nil {
				for _, mid := range rt.Results[ro].RedefIn {
					m2 := mid
					if IsIface(m2.Type) {
						// the body re-supplies the concrete value: its label has the concrete type
						m2.Type = tk.Label.Type
					}
					if Permit(tk.Label, mid) && Permit(m2, slot) {
						ok = true
						break
					}
				}
			}
			if !ok {
				fire("mislabelled-binding", fmt.Sprintf("party %d (%s) exec %d: parameter %s received a value handed to the redefined function as %s, which no declared input can carry there", rec.Party, p, rec.N, slot, tk.Label))
			}
			continue
		}
		if !Permit(tk.Label, slot) {
			fire("mislabelled-binding", fmt.Sprintf("party %d (%s) exec %d: parameter %s received a value labelled %s (%s)", rec.Party, p, rec.N, slot, tk.Label, rt.describe(tk)))
			continue
		}
		// availability: supplied to this operation, produced during it, or the
		// memoised product of a run-once party
		switch tk.Kind {
		case TokSupplied:
			if supplied == nil {
				supplied = rt.SuppliedTokens(op)
			}
			if !supplied[id] {
				fire("foreign-supplied-value", fmt.Sprintf("party %d exec %d: parameter %s received %s, which was not supplied to operation %d", rec.Party, rec.N, slot, rt.describe(tk), op))
			}
		case TokProduced:
			if tk.Op != op && !rt.Parties[tk.Party].Once {
				fire("stale-produced-value", fmt.Sprintf("party %d exec %d: parameter %s received %s, produced during operation %d, while executing operation %d", rec.Party, rec.N, slot, rt.describe(tk), tk.Op, op))
			}
		}
	}
}

func (rt *Runtime) describe(tk Token) string {
	if tk.Kind == TokSupplied {
		return fmt.Sprintf("token %d supplied as option %d", tk.ID, tk.Arg)
	}
	return fmt.Sprintf("token %d produced by party %d exec %d", tk.ID, tk.Party, tk.Exec)
}

// ---- operations ----

func (rt *Runtime) argList(ix []int) []argmapper.Arg {
	// callers usually build option slices with append: leave spare capacity
	out := make([]argmapper.Arg, 0, len(ix)+4)
	for _, i := range ix {
		out = append(out, rt.args[i])
	}
	return out
}

func classifyErr(err error) (string, *argmapper.ErrArgumentUnsatisfied) {
	if err == nil {
		return "", nil
	}
	var se *SimErr
	if errors.As(err, &se) {
		return "injected", nil
	}
	var ue *argmapper.ErrArgumentUnsatisfied
	if errors.As(err, &ue) {
		return "unsatisfied", ue
	}
	msg := err.Error()
	switch {
	case strings.Contains(msg, "This is a bug in the go-argmapper library"):
		return "bug", nil
	case strings.Contains(msg, "arg cannot be nil"):
		return "nilarg", nil
	}
	return "other", nil
}

// decodeOuts flattens result values into tokens (struct results field by field).
func decodeOuts(vals []interface{}) (ids []uint64, dyn []int) {
	for _, x := range vals {
		v := reflect.ValueOf(x)
		for v.IsValid() && v.Kind() == reflect.Ptr && TypeIndex(v.Type()) < 0 {
			if v.IsNil() {
				v = reflect.Value{}
				break
			}
			v = v.Elem()
		}
		if v.IsValid() && v.Kind() == reflect.Struct && TypeIndex(v.Type()) < 0 {
			for i := 0; i < v.NumField(); i++ {
				if v.Type().Field(i).Type == markerType {
					continue
				}
				id, d, _ := Decode(v.Field(i))
				ids = append(ids, id)
				dyn = append(dyn, d)
			}
			continue
		}
		id, d, _ := Decode(v)
		ids = append(ids, id)
		dyn = append(dyn, d)
	}
	return
}

// RunOp executes operation i of the history on the calling simulated thread.
func (rt *Runtime) RunOp(i int) *OpResult {
	o := rt.W.Ops[i]
	th := rt.thread()
	res := &OpResult{Op: i, Kind: o.Kind, LogFrom: len(rt.Log)}
	for len(rt.Results) <= i {
		rt.Results = append(rt.Results, nil)
	}
	rt.Results[i] = res
	rt.curOp[th] = i
	rt.Sim.ResetOp()
	if o.Twin != 0 {
		rt.Sim.Reseed(uint64(o.Twin))
	}
	rt.Sim.Event("op", uint64(i))
	args := rt.argList(o.Args)
	if q := o.ShareArgsWith - 1; q >= 0 && q < i && q < len(rt.opSlices) && len(rt.opSlices[q]) <= len(o.Args) {
		// build this list by appending to the other operation's slice
		args = rt.opSlices[q]
		for _, a := range o.Args[len(rt.opSlices[q]):] {
			args = append(args, rt.args[a])
		}
	}
	for len(rt.opSlices) <= i {
		rt.opSlices = append(rt.opSlices, nil)
	}
	rt.opSlices[i] = args
	p, class, site, detail := core.Guard(func() {
		switch o.Kind {
		case OpCall:
			r := rt.funcs[o.Target].Call(args...)
			res.Raw = &r
			res.Err = r.Err()
			if res.Err == nil {
				res.OutLen = r.Len()
				var vals []interface{}
				for k := 0; k < r.Len(); k++ {
					vals = append(vals, r.Out(k))
				}
				res.Outs, res.OutDyn = decodeOuts(vals)
			}
		case OpLoadInput:
			in := rt.funcs[o.Target].Input()
			for _, sl := range rt.Parties[o.Target].In {
				var dst *argmapper.Value
				if sl.Name != "" {
					dst = in.Named(sl.Name)
				} else {
					dst = in.TypedSubtype(Types[sl.Type], sl.Sub)
				}
				if dst == nil {
					continue
				}
				ty := sl.Type
				if IsIface(ty) {
					ty = Implementors(ty)[0]
				}
				id := rt.newToken(Token{Kind: TokSupplied, Label: sl.Label, Arg: -3, Op: i})
				dst.Value = reflect.ValueOf(MakeValue(ty, id))
				res.Loaded++
			}
		case OpConvert:
			var tt reflect.Type
			if o.Type == -1 {
				tt = structTypeOf(rt.Parties[o.Target].In)
				if rt.Parties[o.Target].InForm == FormPtrStruct {
					tt = reflect.PtrTo(tt)
				}
			} else {
				tt = Types[o.Type]
			}
			v, err := argmapper.Convert(tt, args...)
			res.Err = err
			if v == nil {
				res.ConvNil = true
			} else {
				res.Outs, res.OutDyn = decodeOuts([]interface{}{v})
			}
		case OpRedefine:
			f, err := rt.funcs[o.Target].Redefine(args...)
			res.Err = err
			if err == nil {
				res.Redef = f
				for _, v := range f.Input().Values() {
					res.RedefIn = append(res.RedefIn, Label{Name: v.Name, Type: TypeIndex(v.Type), Sub: v.Subtype})
				}
			}
		case OpCallRedef:
			var rf *argmapper.Func
			if o.Redef >= 0 && o.Redef < len(rt.Results) && rt.Results[o.Redef] != nil {
				rf = rt.Results[o.Redef].Redef
			}
			if rf == nil {
				res.ErrKind = "skipped"
				return
			}
			var cargs []argmapper.Arg
			for _, l := range rt.Results[o.Redef].RedefIn {
				// the caller hands a concrete value; its label carries the concrete type
				if IsIface(l.Type) {
					l.Type = Implementors(l.Type)[0]
				}
				id := uint64(0)
				if !o.ZeroInputs {
					id = rt.newToken(Token{Kind: TokSupplied, Label: l, Arg: -1, Op: i})
				}
				res.Fresh = append(res.Fresh, id)
				t := l.Type
				v := MakeValue(t, id)
				if l.Name != "" {
					cargs = append(cargs, argmapper.NamedSubtype(l.Name, v, l.Sub))
				} else {
					cargs = append(cargs, argmapper.TypedSubtype(v, l.Sub))
				}
			}
			r := rf.Call(cargs...)
			res.Err = r.Err()
			if res.Err == nil {
				res.OutLen = r.Len()
				var vals []interface{}
				for k := 0; k < r.Len(); k++ {
					vals = append(vals, r.Out(k))
				}
				res.Outs, res.OutDyn = decodeOuts(vals)
			}
		}
		// a caller that gets an error looks at it (logs it): rendering is part of the
		// operation, on the caller's thread
		if res.Err != nil {
			res.ErrText = res.Err.Error()
		}
	})
	res.LogTo = len(rt.Log)
	rt.curOp[th] = -1
	if p {
		res.PanicClass, res.PanicSite, res.PanicDetail = class, site, detail
		rt.Sim.EventStr("op-panic", class+"@"+site)
		return res
	}
	res.Returned = true
	if res.ErrKind == "" {
		res.ErrKind, res.Unsat = classifyErr(res.Err)
	}
	rt.Sim.EventStr("op-result", res.ErrKind)
	for _, id := range res.Outs {
		rt.Sim.Event("out", id)
	}
	return res
}

// Func exposes the instantiated *argmapper.Func of a party (for oracles that
// need library views such as error fields).
func (rt *Runtime) Func(pi int) *argmapper.Func { return rt.funcs[pi] }

// builtLookupByType says how the callback of a built party finds type-only
// output slot i in its value set: by type alone (true) when no other type-only
// slot has that type, otherwise by (type, subtype), which BuiltFindable
// guarantees to be unambiguous.
func builtLookupByType(slots []Slot, i int) bool {
	for j, s := range slots {
		if j != i && s.Name == "" && s.Type == slots[i].Type {
			return false
		}
	}
	return true
}

// BuiltFindable reports whether every type-only slot of a value list can be
// found through the documented lookups: by type when it is the only type-only
// value of that type, or by (type, subtype) when no other value of the set,
// named or not, shares both.
func BuiltFindable(slots []Slot) bool {
	for i, s := range slots {
		if s.Name != "" || builtLookupByType(slots, i) {
			continue
		}
		for j, o := range slots {
			if j != i && o.Type == s.Type && o.Sub == s.Sub {
				return false
			}
		}
	}
	return true
}

// Provenance renders where a token came from, independently of token ids:
// "A<option>" for a supplied value, "P<party>.<slot>(inputs...)" for a product.
func (rt *Runtime) Provenance(id uint64) string {
	return rt.prov(id, 0)
}

func (rt *Runtime) prov(id uint64, depth int) string {
	if id == 0 {
		return "zero"
	}
	if id >= uint64(len(rt.Tokens)) || depth > 12 {
		return "?"
	}
	tk := rt.Tokens[id]
	if tk.Kind == TokSupplied {
		return fmt.Sprintf("A%d", tk.Arg)
	}
	// generator-derived parties are named after their template so that the
	// rendering does not depend on how many were derived before
	pn := fmt.Sprintf("P%d", tk.Party)
	if d := tk.Party - len(rt.W.Parties); d >= 0 && d < len(rt.derivedOf) {
		pn = fmt.Sprintf("P%d'", rt.derivedOf[d])
	}
	s := fmt.Sprintf("%s.%s(", pn, tk.Label)
	for i, in := range tk.Inputs {
		if i > 0 {
			s += ","
		}
		s += rt.prov(in, depth+1)
	}
	return s + ")"
}

// ExecCount is how often party pi has executed so far.
func (rt *Runtime) ExecCount(pi int) int { return rt.execs[pi] }

// SetSnapshot renders what a caller can observe in the Input()/Output() value
// sets of every party's Func: for each value, whether it holds a Value and
// which token. Planning (Redefine) must leave it unchanged.
func (rt *Runtime) SetSnapshot() string {
	out := ""
	for pi, f := range rt.funcs {
		if f == nil || pi >= len(rt.W.Parties) {
			continue
		}
		for si, set := range []*argmapper.ValueSet{f.Input(), f.Output()} {
			if set == nil {
				continue
			}
			for vi, v := range set.Values() {
				if v.Value.IsValid() {
					id, _, _ := Decode(v.Value)
					out += fmt.Sprintf("P%d.%d.%d=%d;", pi, si, vi, id)
				}
			}
		}
	}
	return out
}
