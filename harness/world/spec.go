// Package world holds the explicit, JSON-serialisable description of a
// simulated world (types, values, converters, targets, options, operations,
// fault plan) and the machinery that instantiates it against the real library:
// simulator-made parties (targets, converters, generators, filters, build
// callbacks) that log what they receive, check invariants online and consult
// the fault plan.
package world

import (
	"fmt"
	"strings"
)

// Label is (name, type, subtype); Name=="" means type-only. Names are the
// lower-cased canonical form.
type Label struct {
	Name string `json:"n,omitempty"`
	Type int    `json:"t"`
	Sub  string `json:"s,omitempty"`
}

func (l Label) String() string {
	s := TypeName(l.Type)
	if l.Name != "" {
		s = l.Name + ":" + s
	}
	if l.Sub != "" {
		s += "/" + l.Sub
	}
	return s
}

func (l Label) Named() bool { return l.Name != "" }

// Slot is a parameter or result position of a party.
type Slot struct {
	Label
	// Spell says how the name is spelled in the Go signature: 0 field name
	// ("Alpha"), 1 upper-cased field name ("ALPHA"), 2 renamed by tag with mixed
	// case (field "Fk", tag "aLpHa"). Ignored for type-only slots.
	Spell int `json:"sp,omitempty"`
	// Impl is the concrete pool type a party returns in an interface-typed
	// output slot.
	Impl int `json:"impl,omitempty"`
}

// Party forms.
const (
	FormPositional = 0 // func(T1, T2) (T3, error)
	FormStruct     = 1 // func(struct{argmapper.Struct; ...})
	FormPtrStruct  = 2 // func(*struct{argmapper.Struct; ...})
	FormBuilt      = 3 // argmapper.BuildFunc over NewValueSet (both sides)
	// FormPtrPtrStruct (input side only): func(**struct{argmapper.Struct; ...}).
	// The library documents that it rejects it at construction; worlds use it
	// to see that it does (an accepted one must still not panic when called).
	FormPtrPtrStruct = 4
)

// Party is a target or converter.
type Party struct {
	InForm  int    `json:"in_form"`
	OutForm int    `json:"out_form"`
	In      []Slot `json:"in"`
	Out     []Slot `json:"out"`
	HasErr  bool   `json:"has_err"`
	Once    bool   `json:"once,omitempty"`
	// Defaults are indices into World.Args given to NewFunc as default options.
	Defaults []int `json:"defaults,omitempty"`
	// SharePrefixOf (1-based party index, 0 = none): this party's default
	// options are a prefix of that party's, and are passed to NewFunc as a
	// sub-slice of the same backing array (how callers carve option lists out
	// of one slice).
	SharePrefixOf int `json:"share_prefix_of,omitempty"`
}

// Arg kinds.
const (
	ArgNamed      = "named"      // Named / NamedSubtype
	ArgTyped      = "typed"      // Typed / TypedSubtype
	ArgConv       = "conv"       // Converter(fn) with the raw Go function
	ArgConvFunc   = "convfunc"   // ConverterFunc(*Func)
	ArgGen        = "gen"        // ConverterGen
	ArgFilterIn   = "filterin"   // FilterInput
	ArgFilterOut  = "filterout"  // FilterOutput
	ArgNilOpt     = "nilopt"     // a nil Arg
	ArgNilValue   = "nilvalue"   // Named/Typed with a nil interface value
	ArgNonFunc    = "nonfunc"    // Converter(42)
	ArgNilFunc    = "nilfunc"    // ConverterFunc(nil)
	ArgNilConv    = "nilconv"    // Converter(nil)
	ArgTypedMulti = "typedmulti" // Typed(v1, nil, v2, ...): several values (and nils) in one option
)

// ArgSpec is one option value. Option values are created once per world and
// may be used by several operations (and threads).
type ArgSpec struct {
	Kind   string `json:"kind"`
	Label  Label  `json:"label,omitempty"`   // named/typed: label of the supplied value (Type concrete)
	Spell  string `json:"spell,omitempty"`   // named: the name as spelled by the caller (any casing)
	Party  int    `json:"party,omitempty"`   // conv/convfunc: index into World.Parties
	NilPad bool   `json:"nil_pad,omitempty"` // convfunc: ConverterFunc(nil, f, nil)
	NilPtr bool   `json:"nil_ptr,omitempty"` // typed/named with a pointer type: the value is a nil pointer of that type (C06 only)
	Gen    *Gen   `json:"gen,omitempty"`
	// Filter: accepted pool types. Style 0 raw func, 1 FilterOr(FilterType...),
	// 2 FilterAnd(FilterOr(...), always-true).
	Filter      []int `json:"filter,omitempty"`
	FilterStyle int   `json:"filter_style,omitempty"`
	// Multi (typedmulti): indices of typed ArgSpecs (no subtype) whose values this
	// option bundles, in order; NilBefore[i] inserts a nil before component i,
	// NilLast appends one.
	Multi     []int  `json:"multi,omitempty"`
	NilBefore []bool `json:"nil_before,omitempty"`
	NilLast   bool   `json:"nil_last,omitempty"`
}

// Gen is a converter generator: for every value whose type is Trigger it
// offers party Party (a converter); with InheritSub the party's first output
// takes the subtype of the value it was generated for.
type Gen struct {
	Trigger    int  `json:"trigger"`
	Party      int  `json:"party"`
	InheritSub bool `json:"inherit_sub,omitempty"`
	Fault      int  `json:"fault,omitempty"` // 0 none, 1 always declines, 2 returns an error
}

// Op kinds.
const (
	OpCall      = "call"
	OpConvert   = "convert"
	OpRedefine  = "redefine"
	OpCallRedef = "callredef"
	// OpLoadInput writes fresh values into the target Func's own Input() set through its
	// documented accessors (what a BuildFunc wrapper over f.Input() does when it is
	// called): the set is a value holder of the caller's, not state of the function.
	OpLoadInput = "loadinput"
)

// Op is one API operation of a history.
type Op struct {
	Kind   string `json:"kind"`
	Target int    `json:"target"` // party index (call/redefine)
	Type   int    `json:"type"`   // convert: target type
	Args   []int  `json:"args"`   // indices into World.Args, in call order
	Redef  int    `json:"redef"`  // callredef: index of the earlier redefine op
	Thread int    `json:"thread"` // simulated caller thread
	// Twin is a stable id of the operation across a history and its twin (the
	// same history with some operations removed); 0 = none.
	Twin int `json:"twin,omitempty"`
	// ZeroInputs (callredef): hand the zero value of each declared input type
	// to the redefined function instead of a fresh token.
	ZeroInputs bool `json:"zero_inputs,omitempty"`
	// ShareArgsWith (1-based op index, 0 = none): this operation's option list
	// starts with that operation's list and is built by appending to the same
	// slice (the two lists share a backing array, as `base...` and
	// `append(base, x)...` do).
	ShareArgsWith int `json:"share_args_with,omitempty"`
}

// Fault is one entry of the fault plan.
type Fault struct {
	Kind  string `json:"kind"`  // conv_error | target_error | nil_struct
	Party int    `json:"party"` // which party
	Nth   int    `json:"nth"`   // at its n-th execution (1-based); 0 = every execution
}

// World is everything a run needs besides the schedule.
type World struct {
	Parties []Party   `json:"parties"`
	Args    []ArgSpec `json:"args"`
	Ops     []Op      `json:"ops"`
	Faults  []Fault   `json:"faults,omitempty"`
	Threads int       `json:"threads,omitempty"` // 0/1 = sequential
	Note    string    `json:"note,omitempty"`
}

func (w World) Clone() World {
	c := World{Threads: w.Threads, Note: w.Note}
	for _, p := range w.Parties {
		q := p
		q.In = append([]Slot(nil), p.In...)
		q.Out = append([]Slot(nil), p.Out...)
		q.Defaults = append([]int(nil), p.Defaults...)
		c.Parties = append(c.Parties, q)
	}
	for _, a := range w.Args {
		b := a
		b.Filter = append([]int(nil), a.Filter...)
		b.Multi = append([]int(nil), a.Multi...)
		b.NilBefore = append([]bool(nil), a.NilBefore...)
		if a.Gen != nil {
			g := *a.Gen
			b.Gen = &g
		}
		c.Args = append(c.Args, b)
	}
	for _, o := range w.Ops {
		p := o
		p.Args = append([]int(nil), o.Args...)
		c.Ops = append(c.Ops, p)
	}
	c.Faults = append([]Fault(nil), w.Faults...)
	return c
}

// names used for named slots and values.
var Names = []string{"a", "b", "c", "d", "alpha", "beta", "ärger", "-", "typeonly"}

// Subs[:2] are the everyday subtypes; the rest are legal oddities (a case
// variant of s1, a percent sign, an equals sign) drawn rarely.
var Subs = []string{"s1", "s2", "s3", "S1", "p%d", "k=v", "k", "t "}

func spellName(n string, sp int) (field, tagName string) {
	if n == "-" {
		return "", n // a legal name that only a tag can give (it means nothing special here)
	}
	if n == "typeonly" {
		return "", "typeOnly" // a name spelled like an option is still a name
	}
	rs := []rune(n)
	switch sp % 3 {
	case 0:
		return strings.ToUpper(string(rs[:1])) + string(rs[1:]), ""
	case 1:
		return strings.ToUpper(n), ""
	}
	// mixed case through a tag
	for i := range rs {
		if i%2 == 1 {
			rs[i] = []rune(strings.ToUpper(string(rs[i])))[0]
		}
	}
	return "", string(rs)
}

func (p Party) String() string {
	var in, out []string
	for _, s := range p.In {
		in = append(in, s.Label.String())
	}
	for _, s := range p.Out {
		out = append(out, s.Label.String())
	}
	o := ""
	if p.Once {
		o = " once"
	}
	return fmt.Sprintf("form%d/%d(%s)->(%s)%s", p.InForm, p.OutForm, strings.Join(in, ","), strings.Join(out, ","), o)
}
