package world

import (
	"fmt"
	"reflect"

	alt "verif.local/harness/alt/world"
	"verif.local/simrt"
)

// Twin types: indices TwinBase and TwinBase+1 are alt.T0 and alt.T1, which
// print exactly like pool types 0 and 1.
const (
	TwinBase    = NumTypes
	ErrIface    = NumTypes + 2 // the interface type `error`
	ErrImpl     = NumTypes + 3 // TE, a token-carrying implementation of error
	SliceDef    = NumTypes + 4 // B0, a defined slice type (token in element 0)
	SliceRaw    = NumTypes + 5 // []uint64, the unnamed type B0 is built on (used in filters only)
	PtrIface    = NumTypes + 6 // *I0, a pointer to an interface type: concrete, implemented by nothing
	ArrA        = NumTypes + 7 // [1]uint64, an unnamed array type (token in element 0)
	ArrB        = NumTypes + 8 // [2]uint64, another one
	IfaceWide   = NumTypes + 9 // IW, an interface that embeds the method sets of I0 and I1 (implemented by T2)
	NumTypesAll = NumTypes + 10
)

// IW is wider than I0 and I1: a value declared as IW implements both.
type IW interface {
	M0()
	M1()
}

// B0 is a defined type over an unnamed composite type: B0 values are
// assignable to []uint64 and vice versa, yet the two are different types.
type B0 []uint64

// TE is a provenance-carrying value that implements error. It is used only in
// C10's "convert to error" histories.
type TE struct{ ID uint64 }

func (e TE) Error() string { return fmt.Sprintf("TE#%d", e.ID) }

// String dereferences its receiver, as the String methods of most pointer types do
// (*url.URL, ...): calling it on a nil *T3 panics; fmt recovers from that, direct
// callers do not.
func (t *T3) String() string { return fmt.Sprintf("T3#%d", t.ID) }

func init() {
	Types = append(Types, reflect.TypeOf(alt.T0{}), reflect.TypeOf(alt.T1{}), reflect.TypeOf((*error)(nil)).Elem(), reflect.TypeOf(TE{}), reflect.TypeOf(B0{}), reflect.TypeOf([]uint64{}),
		reflect.PtrTo(Types[IfaceBase]), reflect.TypeOf([1]uint64{}), reflect.TypeOf([2]uint64{}),
		reflect.TypeOf((*IW)(nil)).Elem())
	for i, t := range Types {
		simrt.RegisterType(t, i)
	}
}

// IsIface reports whether pool type t is an interface type.
func IsIface(t int) bool {
	return (t >= IfaceBase && t < IfaceBase+NumIface) || t == ErrIface || t == IfaceWide
}

// Implements reports whether pool type s can be assigned to pool type p.
func Implements(s, p int) bool {
	if s == p {
		return true
	}
	if !IsIface(p) {
		return false
	}
	if s >= TwinBase && s != ErrImpl && s != IfaceWide {
		return false
	}
	if p >= TwinBase && p != ErrIface && p != IfaceWide {
		return false
	}
	return Types[s].Implements(Types[p])
}

// Implementors lists the concrete pool types assignable to interface type p.
func Implementors(p int) []int {
	if p == ErrIface {
		return []int{ErrImpl}
	}
	var out []int
	for i := 0; i < IfaceBase; i++ {
		if IsIface(p) && Types[i].Implements(Types[p]) {
			out = append(out, i)
		}
	}
	return out
}

// TypeIndex maps a reflect.Type back to its pool index (-1 if foreign).
func TypeIndex(t reflect.Type) int {
	for i, x := range Types {
		if x == t {
			return i
		}
	}
	return -1
}

func TypeName(t int) string {
	if t < 0 || t >= len(Types) {
		return fmt.Sprintf("type#%d", t)
	}
	return Types[t].String()
}

// MakeValue builds a Go value of concrete pool type t (struct or pointer)
// carrying token id. For an interface type the first implementor is used.
func MakeValue(t int, id uint64) interface{} {
	switch {
	case t < PtrBase:
		return mkStruct(t, id)
	case t < IfaceBase:
		return mkPtr(t-PtrBase, id)
	case t == TwinBase:
		return alt.T0{ID: id}
	case t == TwinBase+1:
		return alt.T1{ID: id}
	case t == ErrImpl:
		return TE{ID: id}
	case t == SliceDef:
		return B0{id}
	case t == SliceRaw:
		return []uint64{id}
	case t == PtrIface:
		p := reflect.New(Types[IfaceBase])
		p.Elem().Set(reflect.ValueOf(MakeValue(Implementors(IfaceBase)[0], id)))
		return p.Interface()
	case t == ArrA:
		return [1]uint64{id}
	case t == ArrB:
		return [2]uint64{id, 0}
	default:
		return MakeValue(Implementors(t)[0], id)
	}
}

// Decode extracts the token carried by v and the pool index of its dynamic
// type. ok=false when v is not a pool value. A nil pointer / nil interface /
// invalid value decodes as token 0.
func Decode(v reflect.Value) (id uint64, dyn int, ok bool) {
	if !v.IsValid() {
		return 0, -1, true
	}
	for v.Kind() == reflect.Interface {
		if v.IsNil() {
			return 0, -1, true
		}
		v = v.Elem()
	}
	dyn = TypeIndex(v.Type())
	if dyn < 0 {
		return 0, -1, false
	}
	if v.Kind() == reflect.Ptr {
		if v.IsNil() {
			return 0, dyn, true
		}
		v = v.Elem()
		if v.Kind() == reflect.Interface { // PtrIface
			id, _, ok = Decode(v)
			return id, dyn, ok
		}
	}
	if v.Kind() == reflect.Array {
		return v.Index(0).Uint(), dyn, true
	}
	if v.Kind() == reflect.Slice {
		if v.Len() == 0 {
			return 0, dyn, true
		}
		return v.Index(0).Uint(), dyn, true
	}
	return v.Field(0).Uint(), dyn, true
}
