module verif.local/harness

go 1.21

require (
	github.com/hashicorp/go-argmapper v0.0.0
	verif.local/simrt v0.0.0
)
