# whitespace-insensitive block replacement helper for the Go sources of the harness
import sys
def wspatch(path, old, new, count=1):
    src = open(path).read().split('\n')
    o = [l.strip() for l in old.strip('\n').split('\n')]
    n = new.strip('\n').split('\n')
    hits = []
    for i in range(len(src) - len(o) + 1):
        if all(src[i + k].strip() == o[k] for k in range(len(o))):
            hits.append(i)
    assert hits, (path, o[0])
    assert len(hits) == count or count == 0, (path, o[0], len(hits))
    for i in reversed(hits):
        indent = src[i][:len(src[i]) - len(src[i].lstrip())]
        base = n[0][:len(n[0]) - len(n[0].lstrip())]
        out = []
        for l in n:
            out.append((indent + l[len(base):]) if l.startswith(base) else (indent + l.lstrip()) if l.strip() else '')
        src[i:i + len(o)] = out
    open(path, 'w').write('\n'.join(src))
