#!/bin/bash
# trymutant.sh <mutant-dir> [extra props...]  - confirm a seeded change (patch.diff, demo_test.go, meta.json)
# and run the quick check(s) of the property it breaks against it. Works on scratch copies only.
export GOFLAGS=-mod=mod GOPROXY=off GOSUMDB=off GOTOOLCHAIN=local
D="$1"; shift
PROP="$(python3 -c "import json; print(json.load(open('$D/meta.json'))['property'][:3])")"
DEMO="$(python3 -c "import json,re; print(re.sub(r'^\s*cp [^&]*&&\s*','',re.split(r'\s\s+|\s\(', json.load(open('$D/meta.json')).get('demo_cmd','go test -run TestDemo -count=1 .'))[0]))")"
PKGDIR=.; grep -q '^package graph' "$D/demo_test.go" && PKGDIR=internal/graph
M="$(mktemp -d /tmp/trymut.XXXXXX)"; C="$(mktemp -d /tmp/trymut.XXXXXX)"
rsync -a --exclude .git /repo/ "$M"/; rsync -a --exclude .git /repo/ "$C"/
( cd "$M" && patch -p1 -s < "$D/patch.diff" ) || { echo "RESULT $(basename $D): patch does not apply"; rm -rf "$M" "$C"; exit 3; }
BUILD=ok; ( cd "$M" && go build ./... ) >/dev/null 2>&1 || BUILD=FAIL
TESTS=pass; for i in 1 2 3; do ( cd "$M" && go test -count=1 ./... ) >/dev/null 2>&1 || TESTS=FAIL; done
cp "$D/demo_test.go" "$M/$PKGDIR/zz_demo_test.go"; cp "$D/demo_test.go" "$C/$PKGDIR/zz_demo_test.go"
DM=fails; ( cd "$M" && eval "$DEMO" ) >/dev/null 2>&1 && DM=PASSES
DC=passes; ( cd "$C" && eval "$DEMO" ) >/dev/null 2>&1 || DC=FAILS
rm -f "$M/$PKGDIR/zz_demo_test.go"
OUT=""
for P in $PROP "$@"; do
  ( cd /verif && VERIF_REPO="$M" ./check "$P" --tier ${TIER:-quick} ) > "$M.$P.log" 2>&1; RC=$?
  OUT="$OUT $P:exit$RC"
  grep -h "^violation:" "$M.$P.log" | head -2 | cut -c1-260
  [ $RC = 2 ] && tail -3 "$M.$P.log"
  rm -f "$M.$P.log"
done
echo "RESULT $(basename $D): build=$BUILD tests=$TESTS demo_with_change=$DM demo_clean=$DC checks:$OUT"
rm -rf "$M" "$C" /verif/replays /tmp/verif-ev.*
