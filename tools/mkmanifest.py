#!/usr/bin/env python3
# regenerates /verif/MANIFEST.json from the table below
import json
claimed = {
 "C01": ("online provenance invariant inside every simulated party (PERMIT table), over seeded iteration orders and fault plans", "5 C01"),
 "C02": ("reference-model least fixpoint (PERMIT upper bound) decides underivability; party log and step/depth budget judge the refusal", "5 C02"),
 "C03": ("party log + provenance on exact-match worlds with distractors under many seeded iteration orders", "5 C03"),
 "C04": ("seeded fault plan (k-th execution of a party fails) vs error identity and ordered party log", "5 C04"),
 "C05": ("EXPECT-model completeness oracle + one-outcome-class check of the same world across seeded iteration-order schedules", "5 C05"),
 "C06": ("recovered panics and step/depth budgets over ill-behaved worlds, malformed options and generator faults", "5 C06"),
 "C07": ("provenance of the converted value / identity of the executed party across seeded iteration-order schedules", "5 C07"),
 "C08": ("Redefine plan vs filter/supplied model, then execution of the plan with fresh provenance tokens", "5 C08"),
 "C09": ("party log during Redefine + twin history (Redefine ops deleted) compared under per-operation reseeded schedules", "5 C09"),
 "C10": ("differential Convert vs Call of a simulated identity target in one history under the same schedule", "5 C10"),
 "C11": ("execution counters and provenance over sequential histories and over seeded interleavings of simulated caller threads (baton scheduler)", "5 C11"),
 "C12": ("simulated caller threads under a seeded baton scheduler + happens-before (vector clock) race detector over woven accesses; outcomes vs sequential baseline", "5 C12"),
 "C13": ("structured error fields vs reference model (hopeless parameters, supplied multiset, converter identity)", "5 C13"),
 "C15": ("built-function parties over call histories: callback observations vs injected tokens, delivery of outputs, twin with ordinary functions", "5 C15"),
 "C16": ("provenance of injected option instances under list transformations and seeded iteration orders", "5 C16"),
 "C18": ("differential vs Floyd-Warshall under seeded map-iteration schedules", "5 C18"),
 "C19": ("op-by-op refinement of an adjacency reference model over seeded histories", "5 C19"),
 "C20": ("differential vs Warshall-closure model under seeded map-iteration schedules", "5 C20"),
}
import sys
extra = json.load(open('/verif/tools/claims.json')) if len(sys.argv) > 1 else {}
na = [
 {"property_id": "C14", "reason": "pure function of a reflect.Type evaluated once at NewFunc; no schedule, shared state, callback or fault on its path (DESIGN.md section 5)"},
 {"property_id": "C17", "reason": "Len/Out/Err are pure projections of a returned value slice; no seam on the path (DESIGN.md section 5)"},
]
allp = ["C%02d" % i for i in range(1, 21)]
checks = []
for pid in allp:
    if pid in claimed:
        tech, ref = claimed[pid]
        checks.append({
            "property_id": pid,
            "quick_cmd": "./check %s --tier quick" % pid,
            "thorough_cmd": "./check %s --tier thorough" % pid,
            "evidence_file": "/verif/evidence/%s.json" % pid,
            "replay_cmd_template": "./check %s --replay {path}" % pid,
            "engine": "sim",
            "level_claimed": {"category": "exploration",
                              "text": "seeded search over worlds, iteration-order schedules and fault plans on the real (woven) library code; a clean batch is evidence, not proof",
                              "design_ref": "DESIGN.md section " + ref},
            "level_note": "trusted: the weaver preserves semantics (re-checked by the repository's own tests on the woven copy in every run), the reference model / PERMIT-EXPECT tables, Go reflect",
            "technique": "deterministic simulation: " + tech,
        })
    elif pid not in ("C14", "C17"):
        na.append({"property_id": pid, "reason": "not claimed"})
m = {
 "version": 1,
 "setup_cmd": "./setup.sh",
 "hooks": {
  "guard": "verifsim",
  "enable": "no hook commits in /repo: ./check weaves the seams (map-range order, step/depth counters, shared-access probes) into a scratch copy of /repo's working tree and builds the harness with -tags verifsim",
  "baseline_off_cmd": "cd /repo && go test -vet=off -count=1 ./...",
  "source_commits": [],
  "add_only": True
 },
 "engines": [{"name": "sim", "path": "/verif/check", "serves_properties": sorted(claimed), "kind_free_text": "weaver + seeded deterministic simulator harness (Go)"}],
 "checks": checks,
 "not_applicable": na,
 "notes": "fix: commits in /repo and known findings are listed in /verif/known_findings.jsonl; see DESIGN.md"
}
json.dump(m, open('/verif/MANIFEST.json', 'w'), indent=1)
print("claimed", sorted(claimed))
