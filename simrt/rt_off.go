//go:build !verifsim

package simrt

import (
	"sync"
	"unsafe"
)

// Pass-through runtime: native behaviour, no simulation.

func Range(m interface{}, site int32) *Iter                        { return nativeRange(m) }
func Enter(site int32) func()                                      { return nop }
func Tick(site int32)                                              {}
func Yield(site int32)                                             {}
func W(p unsafe.Pointer, size uintptr, site int32)                 {}
func R(p unsafe.Pointer, size uintptr, site int32)                 {}
func Wd(p unsafe.Pointer, size uintptr, site int32) struct{}       { return struct{}{} }
func RP(p unsafe.Pointer, size uintptr, site int32) unsafe.Pointer { return p }
func WM(m interface{}, site int32)                                 {}
func RM(m interface{}, site int32) interface{}                     { return m }
func WS(x interface{}, site int32) interface{}                     { return x }
func RS(x interface{}, site int32) interface{}                     { return x }

type tryLocker interface {
	Lock()
	Unlock()
}
type tryRLocker interface {
	RLock()
	RUnlock()
}

func MuLock(mu tryLocker, site int32)                 { mu.Lock() }
func MuUnlock(mu tryLocker, site int32)               { mu.Unlock() }
func MuRLock(mu tryRLocker, site int32)               { mu.RLock() }
func MuRUnlock(mu tryRLocker, site int32)             { mu.RUnlock() }
func OnceDo(o *sync.Once, f func(), site int32)       { o.Do(f) }
func PoolGet(p *sync.Pool, site int32) interface{}    { return p.Get() }
func PoolPut(p *sync.Pool, site int32, v interface{}) { p.Put(v) }
func AP(s interface{}, site int32) interface{}        { return s }
