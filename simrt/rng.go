package simrt

// RNG is SplitMix64: tiny, stable across Go versions, good enough for search.
type RNG struct{ s uint64 }

func NewRNG(seed uint64) *RNG { return &RNG{s: seed} }

func (r *RNG) Uint64() uint64 {
	r.s += 0x9e3779b97f4a7c15
	z := r.s
	z = (z ^ (z >> 30)) * 0xbf58476d1ce4e5b9
	z = (z ^ (z >> 27)) * 0x94d049bb133111eb
	return z ^ (z >> 31)
}

// Intn returns a value in [0,n). n<=1 returns 0 without drawing.
func (r *RNG) Intn(n int) int {
	if n <= 1 {
		return 0
	}
	return int(r.Uint64() % uint64(n))
}

func (r *RNG) Bool() bool { return r.Uint64()&1 == 1 }

// Chance returns true with probability num/den.
func (r *RNG) Chance(num, den int) bool { return r.Intn(den) < num }

func (r *RNG) Float() float64 { return float64(r.Uint64()>>11) / float64(1<<53) }

// Mix derives an independent stream seed from a root seed, an index and a name.
func Mix(root, idx uint64, stream string) uint64 {
	// root and idx go through separate avalanche steps: a plain xor of the two
	// would make seeds that differ in low bits enumerate the same set of cases
	a := RNG{s: root ^ 0x51_7c_c1_b7_27_22_0a_95}
	h := a.Uint64()
	b := RNG{s: h + idx*0xd1342543de82ef95 + 1}
	h = b.Uint64()
	for i := 0; i < len(stream); i++ {
		h = (h ^ uint64(stream[i])) * 0x100000001b3
	}
	r := RNG{s: h}
	r.Uint64()
	return r.Uint64()
}
