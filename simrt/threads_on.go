//go:build verifsim

package simrt

import "unsafe"

// S2 placeholder; the baton scheduler and the vector-clock race detector are
// filled in by threads.go once the concurrency properties are built.

type threads struct{}
type simThread struct{}

const (
	yEnter = iota
	yTick
	yAccess
	yParty
)

func (s *Sim) yield(site int32, kind int) {}

func Yield(site int32)                                             {}
func W(p unsafe.Pointer, size uintptr, site int32)                 {}
func R(p unsafe.Pointer, size uintptr, site int32)                 {}
func RP(p unsafe.Pointer, size uintptr, site int32) unsafe.Pointer { return p }
func WM(m interface{}, site int32)                                 {}
func RM(m interface{}, site int32)                                 {}

// RunThreads runs the bodies as simulated caller threads (placeholder:
// sequentially, until the S2 scheduler is in place).
func (s *Sim) RunThreads(bodies []func()) {
	for _, b := range bodies {
		b()
	}
}
