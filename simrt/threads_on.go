//go:build verifsim

package simrt

import (
	"fmt"
	"reflect"
	"sync"
	"unsafe"
)

// ---------------------------------------------------------------------------
// S2: simulated caller threads.
//
// A simulated thread is a real goroutine that runs only while it holds the
// baton. Woven yield points (function entry, loop iteration, every access to
// memory that can be shared, party entry/exit, lock operations) call yield();
// there the schedule PRNG (or the replayed trace) decides whether the baton
// goes to another runnable thread. Exactly one goroutine runs at any time, so
// an execution is a pure function of the decisions.
//
// Because the hand-off is itself channel synchronisation, Go's race detector
// would see nothing; the simulator carries its own happens-before detector
// over the woven accesses (vector clocks, last write epoch + per-thread read
// clocks per 8-byte word and per map).
// ---------------------------------------------------------------------------

const (
	yEnter = iota
	yTick
	yAccess
	yParty
	yLock
)

// Preemption modes.
const (
	PreemptRandom   = iota // switch with probability SwitchNum/SwitchDen at every yield point
	PreemptNone            // run each thread to completion (sequential baseline)
	PreemptAccess          // random, and always consider a switch at shared accesses
	PreemptTargeted        // switch exactly at the TargetNth-th..(+TargetCount) visit of yield sites of kind access/party
)

type simThread struct {
	id   int
	wake chan struct{}
	done bool
	vc   []uint64
	th   *Thread
}

type backMsg struct {
	id    int
	done  bool
	panic interface{}
}

type cell struct {
	keep  interface{} // keeps the object alive so its address is not reused
	wT    int         // last writer thread (-1 none)
	wC    uint64
	wSite int32
	rC    []uint64 // per thread: clock of its last read (0 none)
	rSite []int32
}

// Race is one unordered conflicting pair of woven accesses.
type Race struct {
	Kind    string // "write-write" | "read-write" | "write-read" | "map ..."
	SiteA   int32  // earlier access
	SiteB   int32  // later access
	ThreadA int
	ThreadB int
	What    string
}

type threads struct {
	ts        []*simThread
	back      chan backMsg
	cur       int
	live      int
	Mode      int
	SwitchNum int
	SwitchDen int
	targetAt  uint64 // PreemptTargeted: switch when the access/party yield counter reaches this
	targetCnt uint64
	ycount    uint64 // yield points passed (all kinds)
	acount    uint64 // access/party yield points passed
	shadow    map[uintptr]*cell
	maps      map[uintptr]*cell
	locks     map[uintptr][]uint64
	onces     map[uintptr]*onceState
	Races     []Race
	raceKeys  map[[2]int32]bool
}

type onceState struct {
	done    bool
	running bool
	rel     []uint64
}

// ThreadCfg configures S2 for a run.
type ThreadCfg struct {
	Mode      int
	SwitchNum int
	SwitchDen int
	TargetAt  uint64
	TargetCnt uint64
}

// SwarmThreadCfg draws a thread-scheduling configuration from the sim's seed.
func (s *Sim) SwarmThreadCfg() ThreadCfg {
	r := NewRNG(Mix(s.seed0, 3, "threadcfg"))
	c := ThreadCfg{SwitchDen: 1000}
	switch x := r.Intn(10); {
	case x < 4:
		c.Mode = PreemptRandom
		c.SwitchNum = []int{1, 3, 10, 30, 100}[r.Intn(5)]
	case x < 5:
		c.Mode = PreemptNone
	case x < 7:
		c.Mode = PreemptAccess
		c.SwitchNum = []int{100, 300, 600}[r.Intn(3)]
	default:
		c.Mode = PreemptTargeted
		// log-uniform over 1..~30000 shared accesses: early check-then-act windows
		// and those deep inside a later operation are both reached
		span := []int{40, 400, 4000, 30000}[r.Intn(4)]
		c.TargetAt = uint64(1 + r.Intn(span))
		c.TargetCnt = uint64(1 + r.Intn(2))
	}
	return c
}

// Races returns the data races detected so far.
func (s *Sim) Races() []Race {
	if s.thr == nil {
		return nil
	}
	return s.thr.Races
}

// RunThreads runs the bodies as simulated caller threads until all finish.
// It must be called from the goroutine that owns the simulation.
func (s *Sim) RunThreads(bodies []func(), cfg ThreadCfg) {
	n := len(bodies)
	t := &threads{back: make(chan backMsg), Mode: cfg.Mode, SwitchNum: cfg.SwitchNum, SwitchDen: cfg.SwitchDen,
		targetAt: cfg.TargetAt, targetCnt: cfg.TargetCnt,
		shadow: map[uintptr]*cell{}, maps: map[uintptr]*cell{}, locks: map[uintptr][]uint64{}, onces: map[uintptr]*onceState{}, raceKeys: map[[2]int32]bool{}}
	if t.SwitchDen == 0 {
		t.SwitchDen = 1000
	}
	// thread 0 is the main (harness) thread: everything it did so far happens
	// before every simulated thread starts.
	mainVC := make([]uint64, n+1)
	mainVC[0] = 1
	for i := 0; i < n; i++ {
		st := &simThread{id: i + 1, wake: make(chan struct{}), vc: append([]uint64(nil), mainVC...), th: &Thread{ID: i + 1}}
		st.vc[st.id] = 1
		st.th.t = st
		t.ts = append(t.ts, st)
	}
	t.live = n
	s.thr = t
	main := s.cur
	for i, b := range bodies {
		st, body := t.ts[i], b
		go func() {
			<-st.wake
			defer func() {
				st.done = true
				if r := recover(); r != nil {
					t.back <- backMsg{id: st.id, done: true, panic: r}
					return
				}
				t.back <- backMsg{id: st.id, done: true}
			}()
			body()
		}()
	}
	var failure interface{}
	next := s.pickThread(-1)
	for t.live > 0 {
		st := t.ts[next]
		s.cur = st.th
		t.cur = next
		st.wake <- struct{}{}
		msg := <-t.back
		if msg.done {
			t.live--
			if msg.panic != nil && failure == nil {
				failure = msg.panic
			}
		}
		if t.live > 0 {
			next = s.pickThread(t.cur)
		}
	}
	// join: everything the threads did happens before what main does next
	for _, st := range t.ts {
		for i := range mainVC {
			if st.vc[i] > mainVC[i] {
				mainVC[i] = st.vc[i]
			}
		}
	}
	s.cur = main
	s.thr.ts = nil
	if failure != nil {
		panic(failure)
	}
}

// pickThread chooses the next runnable thread (index into ts). from is the
// index of the thread that just yielded (-1 at start).
func (s *Sim) pickThread(from int) int {
	t := s.thr
	var runnable []int
	for i, st := range t.ts {
		if !st.done {
			runnable = append(runnable, i)
		}
	}
	if len(runnable) == 0 {
		return -1
	}
	if len(runnable) == 1 {
		return runnable[0]
	}
	k := s.Intn(len(runnable), -100)
	if from >= 0 && runnable[k] != from {
		s.Switches++
	}
	return runnable[k]
}

// yield is called at every woven yield point while threads are running.
func (s *Sim) yield(site int32, kind int) {
	t := s.thr
	if t == nil || t.ts == nil || t.live <= 1 || s.cur.t == nil {
		return
	}
	t.ycount++
	if kind == yAccess || kind == yParty || kind == yLock {
		t.acount++
	}
	sw := false
	if s.replaying {
		// a switch is recorded as ("S", site, ycount)
		if !s.lenientOff && s.rpos < len(s.replay) {
			ev := s.replay[s.rpos]
			if ev.K == "S" && uint64(ev.N) == t.ycount {
				if ev.S != site && !s.Lenient {
					panic(&Infra{fmt.Sprintf("replay divergence: switch at yield %d recorded at site %d, run is at site %d", t.ycount, ev.S, site)})
				}
				s.rpos++
				sw = true
			}
		}
	} else {
		switch t.Mode {
		case PreemptNone:
		case PreemptRandom:
			sw = s.rng.Intn(t.SwitchDen) < t.SwitchNum
		case PreemptAccess:
			if kind == yAccess || kind == yParty {
				sw = s.rng.Intn(t.SwitchDen) < t.SwitchNum
			}
		case PreemptTargeted:
			if (kind == yAccess || kind == yParty) && t.acount >= t.targetAt && t.acount < t.targetAt+t.targetCnt {
				sw = true
			}
		}
		if kind == yLock {
			sw = true // a blocked lock must let the holder run
		}
	}
	if !sw {
		return
	}
	if s.Record {
		s.Trace = append(s.Trace, Ev{K: "S", S: site, N: int(t.ycount), V: []int{kind}})
	}
	s.Event("S", uint64(uint32(site)), t.ycount)
	me := s.cur.t
	t.back <- backMsg{id: me.id}
	<-me.wake
}

// Yield is an explicit yield point (party entry/exit).
func Yield(site int32) {
	if s := S; s != nil && s.thr != nil {
		s.yield(site, yParty)
	}
}

func (t *threads) report(kind string, a, b int32, ta, tb int, what string) {
	k := [2]int32{a, b}
	if t.raceKeys[k] {
		return
	}
	t.raceKeys[k] = true
	t.Races = append(t.Races, Race{Kind: kind, SiteA: a, SiteB: b, ThreadA: ta, ThreadB: tb, What: what})
}

func (t *threads) cellFor(m map[uintptr]*cell, key uintptr, p interface{}) *cell {
	c := m[key]
	if c == nil {
		n := len(t.ts) + 1
		c = &cell{keep: p, wT: -1, rC: make([]uint64, n), rSite: make([]int32, n)}
		m[key] = c
	}
	return c
}

func (s *Sim) curVC() (int, []uint64) {
	if s.cur.t != nil {
		return s.cur.t.id, s.cur.t.vc
	}
	return 0, nil
}

func (s *Sim) accessCell(c *cell, write bool, site int32, what string) {
	t := s.thr
	tid, vc := s.curVC()
	if vc == nil {
		return
	}
	if c.wT >= 0 && c.wT != tid && c.wC > vc[c.wT] {
		if write {
			t.report("write-write", c.wSite, site, c.wT, tid, what)
		} else {
			t.report("write-read", c.wSite, site, c.wT, tid, what)
		}
	}
	if write {
		for u, rc := range c.rC {
			if u != tid && rc != 0 && rc > vc[u] {
				t.report("read-write", c.rSite[u], site, u, tid, what)
			}
		}
		c.wT, c.wC, c.wSite = tid, vc[tid], site
		for u := range c.rC {
			c.rC[u] = 0
		}
	} else {
		c.rC[tid], c.rSite[tid] = vc[tid], site
	}
}

func (s *Sim) access(p unsafe.Pointer, size uintptr, write bool, site int32) {
	if s.thr == nil || s.thr.ts == nil {
		return
	}
	s.yield(site, yAccess)
	if size == 0 {
		size = 1
	}
	lo := uintptr(p) &^ 7
	hi := (uintptr(p) + size + 7) &^ 7
	for a := lo; a < hi; a += 8 {
		c := s.thr.cellFor(s.thr.shadow, a, p)
		s.accessCell(c, write, site, "memory")
	}
}

// W records a write of size bytes at p (woven before the writing statement).
func W(p unsafe.Pointer, size uintptr, site int32) {
	if s := S; s != nil {
		s.access(p, size, true, site)
	}
}

// Wd is W for statement positions that admit no statement in front (see the weaver).
func Wd(p unsafe.Pointer, size uintptr, site int32) struct{} {
	W(p, size, site)
	return struct{}{}
}

// WS / RS record a write / read of every element of slice x and return x (woven around
// the slice operands of copy and sort.Slice, whose element accesses the weaver cannot see).
func WS(x interface{}, site int32) interface{} { sliceAccess(x, true, site); return x }
func RS(x interface{}, site int32) interface{} { sliceAccess(x, false, site); return x }

func sliceAccess(x interface{}, write bool, site int32) {
	s := S
	if s == nil {
		return
	}
	rv := reflect.ValueOf(x)
	if !rv.IsValid() || rv.Kind() != reflect.Slice || rv.Len() == 0 {
		return
	}
	s.access(unsafe.Pointer(rv.Pointer()), uintptr(rv.Len())*rv.Type().Elem().Size(), write, site)
}

// R records a read.
func R(p unsafe.Pointer, size uintptr, site int32) {
	if s := S; s != nil {
		s.access(p, size, false, site)
	}
}

// RP records a read and returns p (woven around rvalue expressions).
func RP(p unsafe.Pointer, size uintptr, site int32) unsafe.Pointer {
	if s := S; s != nil {
		s.access(p, size, false, site)
	}
	return p
}

func (s *Sim) mapAccess(m interface{}, write bool, site int32) {
	if s.thr == nil || s.thr.ts == nil {
		return
	}
	rv := reflect.ValueOf(m)
	if !rv.IsValid() || rv.Kind() != reflect.Map || rv.IsNil() {
		return
	}
	s.yield(site, yAccess)
	key := rv.Pointer()
	c := s.thr.cellFor(s.thr.maps, key, m)
	s.accessCell(c, write, site, "map "+rv.Type().String())
}

// WM records a write (insert, update, delete) to map m.
func WM(m interface{}, site int32) {
	if s := S; s != nil {
		s.mapAccess(m, true, site)
	}
}

// RM records a read of map m and returns it.
func RM(m interface{}, site int32) interface{} {
	if s := S; s != nil {
		s.mapAccess(m, false, site)
	}
	return m
}

// ---- W4: synchronisation routed through the simulator ----

func join(dst, src []uint64) {
	for i := range src {
		if i < len(dst) && src[i] > dst[i] {
			dst[i] = src[i]
		}
	}
}

func (s *Sim) acquire(key uintptr) {
	tid, vc := s.curVC()
	if vc == nil {
		return
	}
	if rel := s.thr.locks[key]; rel != nil {
		join(vc, rel)
	}
	_ = tid
}

func (s *Sim) release(key uintptr) {
	tid, vc := s.curVC()
	if vc == nil {
		return
	}
	s.thr.locks[key] = append([]uint64(nil), vc...)
	vc[tid]++
}

type tryLocker interface {
	TryLock() bool
	Lock()
	Unlock()
}

// MuLock replaces mu.Lock(): a blocked thread yields instead of blocking the
// only running goroutine.
func MuLock(mu tryLocker, site int32) {
	s := S
	if s == nil {
		mu.Lock()
		return
	}
	if s.thr == nil || s.thr.ts == nil {
		// one caller thread: a lock that is not free can never become free
		if !mu.TryLock() {
			panic(&Diverged{Kind: "deadlock", Site: site, Depth: s.cur.Depth, Steps: s.cur.Steps})
		}
		return
	}
	for spins := 0; !mu.TryLock(); spins++ {
		if spins > 20000 {
			panic(&Diverged{Kind: "deadlock", Site: site, Depth: s.cur.Depth, Steps: s.cur.Steps})
		}
		s.yield(site, yLock)
	}
	s.acquire(reflect.ValueOf(mu).Pointer())
}

// MuUnlock replaces mu.Unlock().
func MuUnlock(mu tryLocker, site int32) {
	s := S
	if s != nil && s.thr != nil && s.thr.ts != nil {
		s.release(reflect.ValueOf(mu).Pointer())
	}
	mu.Unlock()
}

type tryRLocker interface {
	TryRLock() bool
	RLock()
	RUnlock()
}

// MuRLock / MuRUnlock: readers are treated like writers for happens-before
// (conservative: never reports a race the program does not have; may miss
// none, since reader-reader pairs never conflict).
func MuRLock(mu tryRLocker, site int32) {
	s := S
	if s == nil {
		mu.RLock()
		return
	}
	if s.thr == nil || s.thr.ts == nil {
		if !mu.TryRLock() {
			panic(&Diverged{Kind: "deadlock", Site: site, Depth: s.cur.Depth, Steps: s.cur.Steps})
		}
		return
	}
	for spins := 0; !mu.TryRLock(); spins++ {
		if spins > 20000 {
			panic(&Diverged{Kind: "deadlock", Site: site, Depth: s.cur.Depth, Steps: s.cur.Steps})
		}
		s.yield(site, yLock)
	}
	s.acquire(reflect.ValueOf(mu).Pointer())
}

func MuRUnlock(mu tryRLocker, site int32) {
	s := S
	if s != nil && s.thr != nil && s.thr.ts != nil {
		s.release(reflect.ValueOf(mu).Pointer())
	}
	mu.RUnlock()
}

// OnceDo replaces once.Do(f).
func OnceDo(o *sync.Once, f func(), site int32) {
	s := S
	if s == nil || s.thr == nil || s.thr.ts == nil {
		o.Do(f)
		return
	}
	key := uintptr(unsafe.Pointer(o))
	st := s.thr.onces[key]
	if st == nil {
		st = &onceState{}
		s.thr.onces[key] = st
	}
	for spins := 0; ; spins++ {
		if st.done {
			if _, vc := s.curVC(); vc != nil && st.rel != nil {
				join(vc, st.rel)
			}
			o.Do(func() {}) // keep the real Once consistent for code that runs after the simulation
			return
		}
		if !st.running {
			break
		}
		if spins > 20000 {
			panic(&Diverged{Kind: "deadlock", Site: site, Depth: s.cur.Depth, Steps: s.cur.Steps})
		}
		s.yield(site, yLock)
	}
	st.running = true
	defer func() {
		st.running = false
		st.done = true
		if tid, vc := s.curVC(); vc != nil {
			st.rel = append([]uint64(nil), vc...)
			vc[tid]++
		}
		o.Do(func() {})
	}()
	f()
}

// AccessCount is the number of shared-access / party yield points passed while
// threads were running.
func (s *Sim) AccessCount() uint64 {
	if s.thr == nil {
		return 0
	}
	return s.thr.acount
}

// ThreadMode is the preemption mode of the last RunThreads.
func (s *Sim) ThreadMode() int {
	if s.thr == nil {
		return -1
	}
	return s.thr.Mode
}

// AP records the write that append(s, ...) may perform into the spare capacity
// of s's backing array, and returns s.
func AP(sl interface{}, site int32) interface{} {
	s := S
	if s == nil || s.thr == nil || s.thr.ts == nil {
		return sl
	}
	rv := reflect.ValueOf(sl)
	if !rv.IsValid() || rv.Kind() != reflect.Slice || rv.Cap() == rv.Len() {
		return sl
	}
	es := rv.Type().Elem().Size()
	if es == 0 {
		return sl
	}
	// one element beyond len is where the first appended value goes
	base := unsafe.Pointer(rv.Pointer())
	p := unsafe.Add(base, uintptr(rv.Len())*es)
	s.access(p, uintptr(rv.Cap()-rv.Len())*es, true, site)
	return sl
}

// ---- sync.Pool ----
//
// A pool is a source of nondeterminism of its own (per-P caches, emptied by the
// garbage collector). Under simulation it is a plain LIFO stack owned by the
// Sim: what Get returns is a function of the schedule alone. Put happens-before
// the Get that returns the same item (per item, as the memory model says).

type poolItem struct {
	v  interface{}
	vc []uint64
}

// PoolGet replaces p.Get().
func PoolGet(p *sync.Pool, site int32) interface{} {
	s := S
	if s == nil {
		return p.Get()
	}
	if s.thr != nil && s.thr.ts != nil {
		s.yield(site, yLock)
	}
	st := s.pools[p]
	if n := len(st); n > 0 {
		it := st[n-1]
		s.pools[p] = st[:n-1]
		if _, vc := s.curVC(); vc != nil && it.vc != nil {
			join(vc, it.vc)
		}
		return it.v
	}
	if p.New != nil {
		return p.New()
	}
	return nil
}

// PoolPut replaces p.Put(v).
func PoolPut(p *sync.Pool, site int32, v interface{}) {
	s := S
	if s == nil {
		p.Put(v)
		return
	}
	it := poolItem{v: v}
	if tid, vc := s.curVC(); vc != nil {
		it.vc = append([]uint64(nil), vc...)
		vc[tid]++
	}
	if s.pools == nil {
		s.pools = map[*sync.Pool][]poolItem{}
	}
	s.pools[p] = append(s.pools[p], it)
}
