// Package simrt is the runtime that woven copies of go-argmapper call into.
//
// The weaver (/verif/weave) rewrites every map `range` statement into an
// iteration over simrt.Range, and inserts Enter/Tick (and, for the concurrency
// properties, Access/RP/Yield) calls. Built without the `verifsim` tag every
// entry point is a pass-through that preserves native behaviour (used for the
// weaver self-check: the repository's own tests on the woven copy). Built with
// the tag, an installed *Sim decides iteration orders, thread interleavings
// and step/depth budgets from one seed.
package simrt

import "reflect"

// Iter iterates a map in an order decided by the simulator. It preserves the
// Go guarantees that matter to the library: the map expression is evaluated
// once, entries deleted before they are reached are not produced, and the value
// seen is the value at the time the entry is reached.
type Iter struct {
	m    reflect.Value
	keys []reflect.Value
	i    int
	k, v reflect.Value
	// grow is set by the simulator: called when the keys are used up, it may append
	// entries that were created during the iteration ("may be produced during the
	// iteration or may be skipped" - the simulator's PRNG decides) and report true.
	grow func(it *Iter) bool
}

// Next advances to the next live entry.
func (it *Iter) Next() bool {
	for {
		for it.i < len(it.keys) {
			k := it.keys[it.i]
			it.i++
			v := it.m.MapIndex(k)
			if v.IsValid() {
				it.k, it.v = k, v
				return true
			}
		}
		if it.grow == nil || !it.grow(it) {
			return false
		}
	}
}

// Key returns the current key (nil interface for a nil interface key).
func (it *Iter) Key() interface{} {
	if !it.k.IsValid() {
		return nil
	}
	if it.k.Kind() == reflect.Interface && it.k.IsNil() {
		return nil
	}
	return it.k.Interface()
}

// Value returns the current value.
func (it *Iter) Value() interface{} {
	if !it.v.IsValid() {
		return nil
	}
	if it.v.Kind() == reflect.Interface && it.v.IsNil() {
		return nil
	}
	return it.v.Interface()
}

func nativeRange(m interface{}) *Iter {
	rv := reflect.ValueOf(m)
	it := &Iter{m: rv}
	if rv.IsValid() && rv.Kind() == reflect.Map && rv.Len() > 0 {
		it.keys = rv.MapKeys() // native (randomised) order
	}
	return it
}

func nop() {}
