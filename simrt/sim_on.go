//go:build verifsim

package simrt

import (
	"crypto/sha256"
	"encoding/binary"
	"encoding/hex"
	"fmt"
	"hash"
	"reflect"
	"sort"
	"strconv"
	"sync"
)

// OrderMode selects how the simulator permutes the canonically sorted keys of
// every woven map range.
type OrderMode int

const (
	OrderUniform   OrderMode = iota // Fisher-Yates from the schedule PRNG
	OrderCanonical                  // identity (sorted)
	OrderReverse                    // reversed
	OrderRotate                     // rotate by a PRNG-chosen k per range
	OrderAdvSite                    // one PRNG-chosen site gets an extreme order, the rest canonical
	OrderMixed                      // per range: identity / reverse / rotate / uniform
	NumOrderModes
)

func (m OrderMode) String() string {
	return [...]string{"uniform", "canonical", "reverse", "rotate", "adv-site", "mixed"}[m]
}

// Ev is one recorded scheduling decision. The list of Ev is the schedule trace
// of a run: replaying it reproduces the run exactly.
type Ev struct {
	K string `json:"k"` // "P" permutation of a map range, "Y" thread choice
	S int32  `json:"s"` // site id
	N int    `json:"n"` // number of alternatives
	V []int  `json:"v"` // permutation (P) or [chosen index] (Y)
}

// Infra is panicked for simulator/harness trouble (never a property violation).
type Infra struct{ Msg string }

func (e *Infra) Error() string { return "simrt infra: " + e.Msg }

// Diverged is panicked when an operation exceeds its simulated step or depth
// budget. The harness recovers it at the operation boundary.
type Diverged struct {
	Kind  string // "depth" or "steps"
	Site  int32
	Depth int
	Steps uint64
}

func (d *Diverged) Error() string {
	return fmt.Sprintf("diverged: %s budget exceeded at site %d (depth %d, steps %d)", d.Kind, d.Site, d.Depth, d.Steps)
}

type SiteStat struct {
	Calls       uint64
	NonIdentity uint64
}

// Sim is one simulated execution.
type Sim struct {
	Mode       OrderMode
	AdvSite    int32 // for OrderAdvSite: the site that is perturbed
	AdvStyle   int   // 0 reverse, 1 rotate, 2 uniform
	AdvPick    bool  // choose AdvSite lazily: the AdvNth distinct range site met
	AdvNth     int
	seenSite   map[int32]bool
	GrowRounds int                       // map iterations that met entries created while they ran
	pools      map[*sync.Pool][]poolItem // simulated sync.Pool contents, per execution

	// Lenient replay (used only while shrinking a schedule): when the trace
	// does not fit the run any more, the rest of the run uses canonical order.
	Lenient    bool
	lenientOff bool

	TotalSteps uint64
	Switches   uint64

	rng   *RNG
	seed0 uint64

	replaying bool
	replay    []Ev
	rpos      int

	Record bool
	Trace  []Ev

	MaxDepth int
	MaxSteps uint64

	Steps        uint64
	MaxDepthSeen int

	h       hash.Hash
	Events  uint64
	Text    []string // verbose event text (only when Verbose)
	Verbose bool

	PermCalls       uint64
	PermNonIdentity uint64
	Sites           map[int32]*SiteStat

	main *Thread
	cur  *Thread
	thr  *threads // S2 state (threads.go)
}

// Thread is a simulated caller thread. With S2 off there is only the main one.
type Thread struct {
	ID    int
	Depth int
	Steps uint64
	t     *simThread
}

// S is the installed simulation; nil means pass-through.
var S *Sim

// NewSim creates a simulation whose scheduling decisions come from seed.
func NewSim(seed uint64) *Sim {
	s := &Sim{rng: NewRNG(seed), seed0: seed, MaxDepth: 400, MaxSteps: 2000000, h: sha256.New(), Sites: map[int32]*SiteStat{}}
	s.main = &Thread{ID: 0}
	s.cur = s.main
	s.AdvNth = int(Mix(seed, 7, "adv") % 16)
	s.seenSite = map[int32]bool{}
	return s
}

// NewReplay creates a simulation that takes every decision from trace.
func NewReplay(trace []Ev) *Sim {
	s := NewSim(0)
	s.replaying = true
	s.replay = trace
	return s
}

func Install(s *Sim) { S = s }
func Uninstall()     { S = nil }

// ReplayLeftover reports unconsumed trace entries (a replay divergence).
func (s *Sim) ReplayLeftover() int {
	if !s.replaying {
		return 0
	}
	return len(s.replay) - s.rpos
}

// Reseed re-derives the schedule PRNG from the run's seed and a key. Histories
// that are compared with a twin (the same operations with some removed) reseed
// at every operation with the operation's stable id, so that an operation sees
// the same stream of iteration orders in both histories. No effect on replay.
func (s *Sim) Reseed(key uint64) {
	if s.replaying {
		return
	}
	s.rng = NewRNG(Mix(s.seed0, key, "op"))
	if s.AdvPick {
		s.seenSite = map[int32]bool{}
		s.AdvSite = 0
	}
}

// CurThreadID is the id of the simulated thread that is running.
func (s *Sim) CurThreadID() int { return s.cur.ID }

// ResetOp resets the per-operation step budget.
func (s *Sim) ResetOp() {
	if s.cur != nil {
		s.cur.Steps = 0
	}
}

// Event appends a harness event to the run's event log.
func (s *Sim) Event(tag string, vals ...uint64) {
	s.Events++
	var b [8]byte
	s.h.Write([]byte(tag))
	for _, v := range vals {
		binary.LittleEndian.PutUint64(b[:], v)
		s.h.Write(b[:])
	}
	s.h.Write([]byte{0xff})
	if s.Verbose {
		t := tag
		for _, v := range vals {
			t += " " + strconv.FormatUint(v, 10)
		}
		s.Text = append(s.Text, t)
	}
}

// EventStr appends a textual harness event.
func (s *Sim) EventStr(tag, val string) {
	s.Events++
	s.h.Write([]byte(tag))
	s.h.Write([]byte{0})
	s.h.Write([]byte(val))
	s.h.Write([]byte{0xff})
	if s.Verbose {
		s.Text = append(s.Text, tag+" "+val)
	}
}

// LogHash returns the SHA-256 of the event log so far.
func (s *Sim) LogHash() string {
	return hex.EncodeToString(s.h.Sum(nil))
}

// Intn draws a harness-level scheduling choice (recorded in the trace).
func (s *Sim) Intn(n int, site int32) int {
	if n <= 1 {
		return 0
	}
	var v int
	if s.replaying {
		if ev, ok := s.nextReplay("Y", site, n); ok {
			v = ev.V[0]
			if v < 0 || v >= n {
				v = 0
			}
		}
	} else {
		v = s.rng.Intn(n)
	}
	if s.Record {
		s.Trace = append(s.Trace, Ev{K: "Y", S: site, N: n, V: []int{v}})
	}
	s.Event("Y", uint64(uint32(site)), uint64(n), uint64(v))
	return v
}

func (s *Sim) nextReplay(k string, site int32, n int) (Ev, bool) {
	if s.lenientOff {
		return Ev{}, false
	}
	if s.rpos >= len(s.replay) {
		if s.Lenient {
			s.lenientOff = true
			return Ev{}, false
		}
		panic(&Infra{fmt.Sprintf("replay divergence: trace exhausted at %s site=%d n=%d", k, site, n)})
	}
	ev := s.replay[s.rpos]
	if ev.K != k || ev.S != site || ev.N != n || (k == "P" && len(ev.V) != n) {
		if s.Lenient {
			s.lenientOff = true
			s.rpos = len(s.replay)
			return Ev{}, false
		}
		panic(&Infra{fmt.Sprintf("replay divergence at entry %d: trace has %s site=%d n=%d, run has %s site=%d n=%d", s.rpos, ev.K, ev.S, ev.N, k, site, n)})
	}
	s.rpos++
	return ev, true
}

func (s *Sim) perm(site int32, n int) []int {
	p := make([]int, n)
	for i := range p {
		p[i] = i
	}
	if n <= 1 {
		return p
	}
	if s.replaying {
		if ev, ok := s.nextReplay("P", site, n); ok {
			copy(p, ev.V)
		}
	} else {
		mode := s.Mode
		style := -1
		switch mode {
		case OrderAdvSite:
			if s.AdvPick && !s.seenSite[site] {
				s.seenSite[site] = true
				if len(s.seenSite)-1 == s.AdvNth {
					s.AdvSite = site
				}
			}
			if site == s.AdvSite {
				style = s.AdvStyle
			}
		case OrderMixed:
			style = s.rng.Intn(4) - 1 // -1 identity, 0 reverse, 1 rotate, 2 uniform
		case OrderUniform:
			style = 2
		case OrderReverse:
			style = 0
		case OrderRotate:
			style = 1
		}
		switch style {
		case 0:
			for i := range p {
				p[i] = n - 1 - i
			}
		case 1:
			k := 1 + s.rng.Intn(n-1)
			for i := range p {
				p[i] = (i + k) % n
			}
		case 2:
			for i := n - 1; i > 0; i-- {
				j := s.rng.Intn(i + 1)
				p[i], p[j] = p[j], p[i]
			}
		}
	}
	s.PermCalls++
	st := s.Sites[site]
	if st == nil {
		st = &SiteStat{}
		s.Sites[site] = st
	}
	st.Calls++
	ident := true
	for i, v := range p {
		if v != i {
			ident = false
			break
		}
	}
	if !ident {
		s.PermNonIdentity++
		st.NonIdentity++
	}
	if s.Record {
		s.Trace = append(s.Trace, Ev{K: "P", S: site, N: n, V: append([]int(nil), p...)})
	}
	// event log: site, n, permutation
	s.Events++
	var b [4]byte
	s.h.Write([]byte{'P'})
	binary.LittleEndian.PutUint32(b[:], uint32(site))
	s.h.Write(b[:])
	for _, v := range p {
		s.h.Write([]byte{byte(v)})
	}
	s.h.Write([]byte{0xff})
	if s.Verbose {
		s.Text = append(s.Text, fmt.Sprintf("P site=%d perm=%v", site, p))
	}
	return p
}

// ---- canonical key order ----

var typeOrd = map[reflect.Type]string{}
var typeKeyCache = map[reflect.Type]string{}

// RegisterType gives t a canonical ordinal (used instead of its String()).
func RegisterType(t reflect.Type, ord int) {
	typeOrd[t] = fmt.Sprintf("#%06d", ord)
	delete(typeKeyCache, t)
}

// typeKey is the canonical sort key of a type: its registered ordinal, or a
// structural rendering built from the keys of its component types (so that two
// distinct types that merely print alike, e.g. same-named types of different
// packages inside a func signature, still sort deterministically and apart).
func typeKey(t reflect.Type) string {
	if k, ok := typeKeyCache[t]; ok {
		return k
	}
	k, ok := typeOrd[t]
	if !ok {
		typeKeyCache[t] = t.String() // guards recursive types
		switch t.Kind() {
		case reflect.Func:
			k = "func("
			for i := 0; i < t.NumIn(); i++ {
				k += typeKey(t.In(i)) + ","
			}
			k += ")("
			for i := 0; i < t.NumOut(); i++ {
				k += typeKey(t.Out(i)) + ","
			}
			k += ")"
		case reflect.Ptr:
			k = "*" + typeKey(t.Elem())
		case reflect.Slice:
			k = "[]" + typeKey(t.Elem())
		case reflect.Array:
			k = fmt.Sprintf("[%d]", t.Len()) + typeKey(t.Elem())
		case reflect.Map:
			k = "map[" + typeKey(t.Key()) + "]" + typeKey(t.Elem())
		case reflect.Struct:
			if t.Name() != "" {
				k = t.PkgPath() + "." + t.Name()
				break
			}
			k = "struct{"
			for i := 0; i < t.NumField(); i++ {
				f := t.Field(i)
				k += f.Name + " " + typeKey(f.Type) + " " + strconv.Quote(string(f.Tag)) + ";"
			}
			k += "}"
		default:
			k = t.PkgPath() + "|" + t.String()
		}
	}
	typeKeyCache[t] = k
	return k
}

var reflectTypeType = reflect.TypeOf((*reflect.Type)(nil)).Elem()

func sortKey(v reflect.Value) string {
	for v.Kind() == reflect.Interface {
		if v.IsNil() {
			return "0:nil"
		}
		v = v.Elem()
	}
	switch v.Kind() {
	case reflect.String:
		return "s:" + v.String()
	case reflect.Int, reflect.Int8, reflect.Int16, reflect.Int32, reflect.Int64:
		return fmt.Sprintf("i:%s:%020d", v.Type().String(), uint64(v.Int())+(1<<63))
	case reflect.Uint, reflect.Uint8, reflect.Uint16, reflect.Uint32, reflect.Uint64, reflect.Uintptr:
		return fmt.Sprintf("u:%s:%020d", v.Type().String(), v.Uint())
	case reflect.Bool:
		if v.Bool() {
			return "b:1"
		}
		return "b:0"
	case reflect.Ptr:
		if v.Type().Implements(reflectTypeType) && v.CanInterface() {
			if t, ok := v.Interface().(reflect.Type); ok {
				return "t:" + typeKey(t)
			}
		}
		// Opaque pointer identity: only its type is canonical. Two such keys
		// in one map make the canonical order ambiguous (checked by caller).
		return "p:" + v.Type().String()
	case reflect.Struct, reflect.Array:
		if v.CanInterface() {
			return fmt.Sprintf("v:%s:%v", v.Type().String(), v.Interface())
		}
	}
	return "x:" + v.Type().String()
}

type keySorter struct {
	keys []reflect.Value
	sk   []string
}

func (k *keySorter) Len() int           { return len(k.keys) }
func (k *keySorter) Less(i, j int) bool { return k.sk[i] < k.sk[j] }
func (k *keySorter) Swap(i, j int) {
	k.keys[i], k.keys[j] = k.keys[j], k.keys[i]
	k.sk[i], k.sk[j] = k.sk[j], k.sk[i]
}

// Range is the woven replacement of `range m`.
func Range(m interface{}, site int32) *Iter {
	s := S
	if s == nil {
		return nativeRange(m)
	}
	rv := reflect.ValueOf(m)
	it := &Iter{m: rv}
	if !rv.IsValid() || rv.Kind() != reflect.Map || rv.Len() == 0 {
		return it
	}
	keys := rv.MapKeys()
	if len(keys) > 1 {
		ks := &keySorter{keys: keys, sk: make([]string, len(keys))}
		for i, k := range keys {
			ks.sk[i] = sortKey(k)
		}
		sort.Sort(ks)
		for i := 1; i < len(ks.sk); i++ {
			if ks.sk[i] == ks.sk[i-1] {
				panic(&Infra{fmt.Sprintf("canonical order ambiguous at site %d: two keys sort as %q", site, ks.sk[i])})
			}
		}
		p := s.perm(site, len(keys))
		out := make([]reflect.Value, len(keys))
		for i, j := range p {
			out[i] = keys[j]
		}
		keys = out
	}
	it.keys = keys
	it.grow = func(it *Iter) bool { return s.growIter(it, site) }
	return it
}

// growIter looks for entries created since the iteration started (or since the last
// look). Go leaves open whether such entries are produced; one seeded, recorded coin
// per round of growth decides for all of them.
func (s *Sim) growIter(it *Iter, site int32) bool {
	n := it.m.Len()
	if n == 0 {
		return false
	}
	live := 0
	for _, k := range it.keys {
		if it.m.MapIndex(k).IsValid() {
			live++
		}
	}
	if live == n {
		return false // nothing was created (the common case: no allocation)
	}
	seen := make(map[string]bool, len(it.keys))
	for _, k := range it.keys {
		seen[sortKey(k)] = true
	}
	var fresh []reflect.Value
	var sk []string
	for _, k := range it.m.MapKeys() {
		if x := sortKey(k); !seen[x] {
			fresh = append(fresh, k)
			sk = append(sk, x)
		}
	}
	if len(fresh) == 0 {
		return false
	}
	s.GrowRounds++
	if s.Intn(2, site) == 0 {
		it.grow = nil // skipped, for good
		return false
	}
	ks := &keySorter{keys: fresh, sk: sk}
	sort.Sort(ks)
	p := s.perm(site, len(fresh))
	for _, j := range p {
		it.keys = append(it.keys, ks.keys[j])
	}
	return true
}

func exitFn() {
	if s := S; s != nil {
		s.cur.Depth--
	}
}

// Enter counts a library call frame; `defer simrt.Enter(site)()`.
func Enter(site int32) func() {
	s := S
	if s == nil {
		return nop
	}
	t := s.cur
	t.Depth++
	s.Steps++
	t.Steps++
	if t.Depth > s.MaxDepthSeen {
		s.MaxDepthSeen = t.Depth
	}
	if t.Depth > s.MaxDepth {
		// no frame is entered: undo so that deferred exits stay balanced
		t.Depth--
		panic(&Diverged{Kind: "depth", Site: site, Depth: t.Depth + 1, Steps: s.Steps})
	}
	if t.Steps > s.MaxSteps {
		t.Depth--
		panic(&Diverged{Kind: "steps", Site: site, Depth: t.Depth + 1, Steps: t.Steps})
	}
	if s.thr != nil {
		s.yield(site, yEnter)
	}
	return exitFn
}

// Tick counts one loop iteration.
func Tick(site int32) {
	s := S
	if s == nil {
		return
	}
	s.Steps++
	s.cur.Steps++
	if s.cur.Steps > s.MaxSteps {
		panic(&Diverged{Kind: "steps", Site: site, Depth: s.cur.Depth, Steps: s.cur.Steps})
	}
	if s.thr != nil {
		s.yield(site, yTick)
	}
}
