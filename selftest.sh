#!/bin/bash
# ./selftest.sh determinism [props...]   - same seed => same event log, across processes,
#                                          GOMAXPROCS 1/4/16 and two Go toolchains
# ./selftest.sh seeded                   - every kept seeded change under /verif/seeded is caught
#                                          by the quick check of the property it breaks
set -u
export GOFLAGS=-mod=mod GOPROXY=off GOSUMDB=off GOTOOLCHAIN=local CGO_ENABLED=0
VERIF="$(cd "$(dirname "$0")" && pwd)"
REPO="${VERIF_REPO:-/repo}"
MODE="${1:-determinism}"; shift || true
case "$MODE" in
determinism)
  PROPS="${*:-C01 C05 C06 C08 C09 C11 C12 C15 C18 C19 C20}"
  SCR="$(mktemp -d /tmp/verif-selftest.XXXXXX)"; trap 'rm -rf "$SCR"' EXIT
  ( cd "$VERIF/weave" && go build -o "$VERIF/.bin/weave" . ) || exit 2
  mkdir "$SCR/repo" && rsync -a --exclude .git "$REPO"/ "$SCR/repo"/
  "$VERIF/.bin/weave" -dir "$SCR/repo" -simrt "$VERIF/simrt" >/dev/null || exit 2
  printf 'module verif.local/harness\n\ngo 1.21\n\nrequire (\n\tgithub.com/hashicorp/go-argmapper v0.0.0\n\tverif.local/simrt v0.0.0\n)\n\nreplace github.com/hashicorp/go-argmapper => %s\nreplace verif.local/simrt => %s\n' "$SCR/repo" "$VERIF/simrt" > "$SCR/harness.mod"
  cp "$REPO/go.sum" "$SCR/harness.sum"
  ( cd "$VERIF/harness" && go build -trimpath -tags verifsim -modfile="$SCR/harness.mod" -o "$SCR/sim" ./cmd/sim ) || exit 2
  ( cd "$VERIF/harness" && GOTOOLCHAIN=local go1.26.8 build -trimpath -tags verifsim -modfile="$SCR/harness.mod" -o "$SCR/sim126" ./cmd/sim ) || { echo "note: go1.26.8 build failed; second toolchain skipped"; rm -f "$SCR/sim126"; }
  export VERIF_SITES="$SCR/repo/verif_sites.json"
  FAIL=0
  for P in $PROPS; do
    for SEED in 1 7 20261002; do
      REF=""
      for CFG in "sim 1" "sim 4" "sim 16" "sim 16" "sim126 1" "sim126 16"; do
        set -- $CFG; BIN="$SCR/$1"; [ -x "$BIN" ] || continue
        OUT="$SCR/d-$P-$SEED-$1-$2-$RANDOM.json"
        GOMAXPROCS=$2 "$BIN" worker -prop "$P" -tier quick -seed "$SEED" -lo 0 -hi 300 -stride 1 -out "$OUT" || { echo "worker failed: $P seed $SEED ($CFG)"; FAIL=1; continue; }
        D="$(python3 -c "import json,sys; d=json.load(open('$OUT')); print(d['event_log_digest'], d['cases'], len(d['found'] or []), d.get('infra',''))")"
        if [ -z "$REF" ]; then REF="$D"; elif [ "$D" != "$REF" ]; then echo "NONDETERMINISM: $P seed $SEED: '$D' != '$REF' under $CFG"; FAIL=1; fi
      done
      echo "$P seed=$SEED digest=${REF%% *} (6 runs agree: $([ $FAIL = 0 ] && echo yes || echo NO))"
    done
  done
  exit $FAIL
  ;;
seeded)
  FAIL=0
  for D in "$VERIF"/seeded/${1:-*}/; do
    [ -f "$D/patch.diff" ] || continue
    ID="$(basename "$D")"
    if [ "$(python3 -c "import json; print(bool(json.load(open('$D/meta.json')).get('superseded')))")" = True ]; then echo "$ID: superseded by a later fix, skipped"; continue; fi
    PROP="$(python3 -c "import json; m=json.load(open('$D/meta.json')); print(m.get('property_check_for_selftest', m['property']))")"
    EXPECT="$(python3 -c "import json; m=json.load(open('$D/meta.json')); print(bool(m.get('caught_by')))")"
    M="$(mktemp -d /tmp/verif-seeded.XXXXXX)"
    rsync -a --exclude .git "$REPO"/ "$M"/
    if ! ( cd "$M" && patch -p1 -s < "$D/patch.diff" ); then echo "$ID: patch does not apply"; FAIL=1; rm -rf "$M"; continue; fi
    VERIF_REPO="$M" "$VERIF/check" "$PROP" --tier quick > "$M.log" 2>&1; RC=$?
    rm -rf "$M"
    if [ $RC = 1 ]; then echo "$ID ($PROP): caught"; else echo "$ID ($PROP): NOT caught (exit $RC, expected caught=$EXPECT)"; [ "$EXPECT" = True ] && FAIL=1; fi
    rm -f "$M.log"
  done
  rm -rf "$VERIF/replays" /tmp/verif-ev.*
  exit $FAIL
  ;;
replay)
  # every violation reported against a seeded change must replay exactly from its file, in a fresh process
  FAIL=0
  for D in "$VERIF"/seeded/${1:-*}/; do
    [ -f "$D/patch.diff" ] || continue
    ID="$(basename "$D")"
    PROP="$(python3 -c "import json; m=json.load(open('$D/meta.json')); print(m.get('property_check_for_selftest', m['property'])[:3])")"
    [ "$(python3 -c "import json; m=json.load(open('$D/meta.json')); print(bool(m.get('caught_by')))")" = True ] || continue
    M="$(mktemp -d /tmp/verif-seeded.XXXXXX)"
    rsync -a --exclude .git "$REPO"/ "$M"/
    if ! ( cd "$M" && patch -p1 -s < "$D/patch.diff" ); then echo "$ID: patch does not apply"; FAIL=1; rm -rf "$M"; continue; fi
    rm -rf "$VERIF/replays"
    VERIF_REPO="$M" "$VERIF/check" "$PROP" --tier quick > "$M.log" 2>&1; RC=$?
    if [ $RC != 1 ]; then echo "$ID ($PROP): not caught (exit $RC)"; FAIL=1; rm -rf "$M" "$M.log"; continue; fi
    N=0; OK=0
    # (witness files of fixed findings that a change re-opens are recorded on older trees: not expected to be exact)
    for R in $(grep -o 'replay=[^ ]*' "$M.log" | cut -d= -f2 | grep '/replays/' | head -3); do
      N=$((N+1))
      if VERIF_REPO="$M" "$VERIF/check" "$PROP" --replay "$R" 2>&1 | grep -q "^reproduced: .*event-log-identical=true"; then OK=$((OK+1)); fi
    done
    echo "$ID ($PROP): $OK of $N replay files reproduce with an identical event log"
    [ "$OK" = "$N" ] && [ "$N" -gt 0 ] || FAIL=1
    rm -rf "$M" "$M.log"
  done
  rm -rf "$VERIF/replays" /tmp/verif-ev.*
  exit $FAIL
  ;;
*) echo "usage: ./selftest.sh determinism [props] | seeded [glob] | replay [glob]"; exit 2;;
esac
